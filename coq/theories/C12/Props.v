(* C12/Props.v : the property theorems of C12 (statements only; proofs are in Proofs*.v).
   Naming: rule_ok_<Gate> etc. are proved at full strength for every n / placement / state;
   *_refuted are proved existence statements whose witnesses refute the corresponding full-strength
   statement about the faithful model of the code (the real code has the defect; the harness
   replays every witness on it); *_partial / *_K are bounded or conditional and say so.
   "conj1_ok U f" reads: for every n, q < n, row w, state psi, basis index b of length n,
        (U on qubit q) (P_w psi) (b) = P_{f applied to columns q of w} ((U on qubit q) psi) (b)
   i.e. the rule maps the row encoding of P to the row encoding of U P U^dagger. *)
From Coq Require Import ZArith List Bool Arith Lia PrimFloat.
From QV Require Import Base.Mat Base.Zi C12.ModelFloat C12.ModelTableau C12.ModelExec C12.ModelMeasure
  C12.Pauli C12.ProofsRules C12.ProofsCircuit C12.ProofsFloat C12.ProofsMeasure C12.ProofsMeasure2
  C12.ProofsMeasure3 C12.ProofsBorn C12.ModelAG04 C12.ProofsAG04 C12.ProofsAccept C12.ProofsNonzero C12.ModelShot C12.ProofsShot
  C12.ProofsFloat2 C12.ProofsExec.
Import ListNotations.
Local Open Scope Z_scope.

(* ================= (1) tableau update rules ================= *)

Theorem rule_lifting_1q : forall U f, L1b U f = true -> conj1_ok U f.
Proof. exact app1_conj. Qed.
Print Assumptions rule_lifting_1q.

Theorem rule_lifting_2q : forall U f, L2b U f = true -> conj2_ok U f.
Proof. exact app2_conj. Qed.
Print Assumptions rule_lifting_2q.

Theorem rule_ok_I : conj1_ok (of_mat1 M_I) m_I.
Proof. exact rule_I. Qed.
Print Assumptions rule_ok_I.

Theorem rule_ok_H : conj1_ok (of_mat1 M_H) m_H.
Proof. exact rule_H. Qed.
Print Assumptions rule_ok_H.

Theorem rule_ok_X : conj1_ok (of_mat1 M_X) m_X.
Proof. exact rule_X. Qed.
Print Assumptions rule_ok_X.

Theorem rule_ok_Y : conj1_ok (of_mat1 M_Y) m_Y.
Proof. exact rule_Y. Qed.
Print Assumptions rule_ok_Y.

Theorem rule_ok_Z : conj1_ok (of_mat1 M_Z) m_Z.
Proof. exact rule_Z. Qed.
Print Assumptions rule_ok_Z.

Theorem rule_ok_S : conj1_ok (of_mat1 M_S) m_S.
Proof. exact rule_S. Qed.
Print Assumptions rule_ok_S.

Theorem rule_ok_SDG : conj1_ok (of_mat1 M_SDG) m_SDG.
Proof. exact rule_SDG. Qed.
Print Assumptions rule_ok_SDG.

Theorem rule_ok_SX : conj1_ok (of_mat1 M_SX) m_SX.
Proof. exact rule_SX. Qed.
Print Assumptions rule_ok_SX.

Theorem rule_ok_SXDG : conj1_ok (of_mat1 M_SXDG) m_SXDG.
Proof. exact rule_SXDG. Qed.
Print Assumptions rule_ok_SXDG.

Theorem rule_ok_RX : forall j, conj1_ok (of_mat1 (M_RX j)) (m_RX_branch j).
Proof. exact rule_RX. Qed.
Print Assumptions rule_ok_RX.

Theorem rule_ok_RY : forall j, conj1_ok (of_mat1 (M_RY j)) (m_RY_branch j).
Proof. exact rule_RY. Qed.
Print Assumptions rule_ok_RY.

Theorem rule_ok_RZ : forall j, conj1_ok (of_mat1 (M_RZ j)) (m_RZ_branch j).
Proof. exact rule_RZ. Qed.
Print Assumptions rule_ok_RZ.

Theorem rule_ok_CNOT : conj2_ok (of_mat2 M_CNOT) m_CNOT.
Proof. exact rule_CNOT. Qed.
Print Assumptions rule_ok_CNOT.

Theorem rule_ok_CY : conj2_ok (of_mat2 M_CY) m_CY.
Proof. exact rule_CY. Qed.
Print Assumptions rule_ok_CY.

Theorem rule_ok_CZ : conj2_ok (of_mat2 M_CZ) m_CZ.
Proof. exact rule_CZ. Qed.
Print Assumptions rule_ok_CZ.

Theorem rule_ok_SWAP : conj2_ok (of_mat2 M_SWAP) m_SWAP.
Proof. exact rule_SWAP. Qed.
Print Assumptions rule_ok_SWAP.

Theorem rule_ok_iSWAP : conj2_ok (of_mat2 M_iSWAP) m_iSWAP.
Proof. exact rule_iSWAP. Qed.
Print Assumptions rule_ok_iSWAP.

Theorem rule_ok_FSWAP : conj2_ok (of_mat2 M_FSWAP) m_FSWAP.
Proof. exact rule_FSWAP. Qed.
Print Assumptions rule_ok_FSWAP.

Theorem rule_ok_ECR : conj2_ok (of_mat2 M_ECR) m_ECR.
Proof. exact rule_ECR. Qed.
Print Assumptions rule_ok_ECR.

Theorem rule_ok_CRX : forall j, conj2_ok (of_mat2 (M_CRX j)) (m_CRX_branch j).
Proof. exact rule_CRX. Qed.
Print Assumptions rule_ok_CRX.

Theorem rule_ok_CRY : forall j, conj2_ok (of_mat2 (M_CRY j)) (m_CRY_branch j).
Proof. exact rule_CRY. Qed.
Print Assumptions rule_ok_CRY.

Theorem rule_ok_CRZ : forall j, conj2_ok (of_mat2 (M_CRZ j)) (m_CRZ_branch j).
Proof. exact rule_CRZ. Qed.
Print Assumptions rule_ok_CRZ.

(* non-vacuity: the hypotheses of conj1_ok / conj2_ok are satisfiable (a well-formed row on 3 qubits) *)
Example rule_ok_nonvacuous :
  row_wf 3 ([true; false; true], [false; true; true], true) /\ (1 < 3)%nat /\ length [true; false; false] = 3%nat.
Proof. repeat split; auto. Qed.


Theorem clifford_sim_ok : forall n os,
  Forall (fun o => sop_check o = true) os -> Forall (sop_valid n) os ->
  forall w, In w (stabilisers n (exec (map sop_op os) (zero_state n))) ->
    row_wf n w /\ stabilises n w (run_spec os psi0).
Proof. exact ProofsCircuit.clifford_sim_ok. Qed.
Print Assumptions clifford_sim_ok.

Theorem execute_plain_ok : forall half n c l T,
  sops_of c = Some l -> Forall (sop_valid n) l -> execute_circuit_at half n c = Final T ->
  forall w, In w (stabilisers n T) -> row_wf n w /\ stabilises n w (run_spec l psi0).
Proof. exact ProofsCircuit.execute_plain_ok. Qed.
Print Assumptions execute_plain_ok.

Example execute_plain_ok_nonvacuous :
  exists l T, sops_of demo_circuit = Some l /\ Forall (sop_valid 2) l /\ execute_circuit 2 demo_circuit = Final T
              /\ length (stabilisers 2 T) = 2%nat.
Proof. exact ProofsExec.execute_plain_ok_nonvacuous. Qed.

(* ================= (2) the Clifford flag and the angle dispatch (bit-exact floats) ================= *)

Theorem flag_sound_refuted : exists x : float, flag x = true /\ forall k : Z, ~ near_multiple x k.
Proof. exact ProofsFloat.flag_sound_refuted. Qed.
Print Assumptions flag_sound_refuted.

Theorem flag_complete_K_refuted : exists k, - 4096 <= k <= 4096 /\ flag (ang_a k) = false /\ flag (ang_b k) = false.
Proof. exact ProofsFloat.flag_complete_K_refuted. Qed.
Print Assumptions flag_complete_K_refuted.

Theorem flag_complete_10_partial : flag_complete_stmt 10.
Proof. exact ProofsFloat.flag_complete_10_partial. Qed.
Print Assumptions flag_complete_10_partial.

Theorem flag_missed_count : Z.of_nat (length (filter (fun k => negb (flag (ang_a k))) (zsym 4096))) = 8086
  /\ Z.of_nat (length (filter (fun k => negb (flag (ang_b k))) (zsym 4096))) = 8086
  /\ Z.of_nat (length (zsym 4096)) = 8193.
Proof. exact ProofsFloat.flag_missed_count. Qed.
Print Assumptions flag_missed_count.

Theorem dispatch_selects_K : forall k, - 4096 <= k <= 4096 ->
  (flag (ang_a k) = true -> rot_branch (ang_a k) = Z.to_nat (k mod 4))
  /\ (flag (ang_b k) = true -> rot_branch (ang_b k) = Z.to_nat (k mod 4)).
Proof. exact ProofsFloat.dispatch_selects_K. Qed.
Print Assumptions dispatch_selects_K.

Theorem cdispatch_selects_K : forall k, - 4096 <= k <= 4096 ->
  flag (ang_pi k) = true -> crot_branch (ang_pi k) = Some (Z.to_nat (k mod 4)).
Proof. exact ProofsFloat.cdispatch_selects_K. Qed.
Print Assumptions cdispatch_selects_K.

Theorem dispatch_unflagged_refuted : exists k, - 4096 <= k <= 4096 /\ rot_branch (ang_a k) <> Z.to_nat (k mod 4).
Proof. exact ProofsFloat.dispatch_unflagged_refuted. Qed.
Print Assumptions dispatch_unflagged_refuted.

Theorem cr_flag_refuted : exists theta : float, flag theta = true /\ crot_branch theta = None.
Proof. exact ProofsFloat.cr_flag_refuted. Qed.
Print Assumptions cr_flag_refuted.

(* cr_half_* : about the candidate repair `_CRn_.clifford tests theta / 2` (withdrawn; see ModelExec.clifford_at) *)
Theorem cr_half_flag_ok_K : forall k, - 256 <= k <= 256 ->
  (flag_half (ang_a k) = true -> crot_branch (ang_a k) <> None)
  /\ (flag_half (ang_b k) = true -> crot_branch (ang_b k) <> None)
  /\ (flag_half (ang_pi k) = true -> crot_branch (ang_pi k) = Some (Z.to_nat (k mod 4)))
  /\ (Z.odd k = true -> flag_half (ang_a k) = false) /\ (Z.odd k = true -> flag_half (ang_b k) = false).
Proof. exact ProofsFloat.cr_half_flag_ok_K. Qed.
Print Assumptions cr_half_flag_ok_K.

Theorem cr_half_flag_sound_refuted : exists theta : float, flag_half theta = true /\ crot_branch theta = None.
Proof. exact ProofsFloat.cr_half_flag_sound_refuted. Qed.
Print Assumptions cr_half_flag_sound_refuted.

Theorem rx_gate_meaning_K : forall k q, - 4096 <= k <= 4096 -> flag (ang_a k) = true ->
  sop_of_gate (mkGate cRX [q] [] [q] (Some (PFloat (ang_a k))) (Some (ang_a k)) false)
  = Some (S1 (of_mat1 (M_RX (Z.to_nat (k mod 4)))) (m_RX_branch (Z.to_nat (k mod 4))) q).
Proof. exact ProofsExec.rx_gate_meaning_K. Qed.
Print Assumptions rx_gate_meaning_K.

Theorem crx_gate_meaning_K : forall k c t, c <> t -> - 4096 <= k <= 4096 -> flag (ang_pi k) = true ->
  sop_of_gate (mkGate cCRX [c; t] [c] [t] (Some (PFloat (ang_pi k))) (Some (ang_pi k)) false)
  = Some (S2 (of_mat2 (M_CRX (Z.to_nat (k mod 4)))) (m_CRX_branch (Z.to_nat (k mod 4))) c t).
Proof. exact ProofsExec.crx_gate_meaning_K. Qed.
Print Assumptions crx_gate_meaning_K.

Example dispatch_selects_nonvacuous : flag (ang_a 7) = true /\ flag (ang_pi 3) = true.
Proof. split; vm_compute; reflexivity. Qed.

(* ================= (3) controlled gates ================= *)

Theorem controlled_flag_refuted : exists base qs g, g_ctrl base = [] /\ controlled_by base qs = Some g
                    /\ clifford g = true /\ args_cover_qubits g = false.
Proof. exact ProofsExec.controlled_flag_refuted. Qed.
Print Assumptions controlled_flag_refuted.

Theorem controlled_sim_refuted : exists T w, execute_circuit 3 ccz_circuit = Final T /\ In w (stabilisers 3 T)
              /\ stabilises_b 3 w ccz_state = false.
Proof. exact ProofsExec.controlled_sim_refuted. Qed.
Print Assumptions controlled_sim_refuted.

(* ================= (3b) what is accepted, and what is executed ================= *)
Theorem acceptance_characterised : forall half g,
  passes_acceptance_at half g = true <->
  fixed_clifford_class (g_cls g) = true
  \/ (rot_class (g_cls g) = true /\ angle_flag g = true)
  \/ (crot_class (g_cls g) = true /\ (if half then angle_flag_half g else angle_flag g) = true)
  \/ (g_cls g = cUnitary /\ g_uflag g = true)
  \/ g_cls g = cM \/ g_cls g = cPauliNoise.
Proof. exact ProofsAccept.acceptance_characterised. Qed.
Print Assumptions acceptance_characterised.

Theorem execute_ignores_controls : forall half n c,
  execute_circuit_at half n (map bare c) = execute_circuit_at half n c.
Proof. exact ProofsAccept.execute_ignores_controls. Qed.
Print Assumptions execute_ignores_controls.

Theorem accepted_gate_cases : forall half g, passes_acceptance_at half g = true ->
  (exists s, sop_of_gate g = Some s /\ sop_check s = true /\ apply_gate_clifford g = AOp (sop_op s))
  \/ (args_cover_qubits g = false /\ exists o, apply_gate_clifford g = AOp o)
  \/ apply_gate_clifford g = ANone \/ apply_gate_clifford g = ASkip \/ apply_gate_clifford g = ACrash.
Proof. exact ProofsAccept.accepted_gate_cases. Qed.
Print Assumptions accepted_gate_cases.

Theorem accepted_exec_correct : forall half n c T,
  execute_circuit_at half n c = Final T ->
  (forall g, In g c -> g_cls g = cM \/ exists s, sop_of_gate g = Some s) ->
  exists l, sops_of c = Some l /\ T = exec (map sop_op l) (zero_state n)
            /\ Forall (fun o => sop_check o = true) l.
Proof. exact ProofsAccept.accepted_exec_correct. Qed.
Print Assumptions accepted_exec_correct.

Example accepted_gate_cases_nonvacuous :
  passes_acceptance_at false (mkGate cZ [2%nat] [0%nat; 1%nat] [2%nat] None None false) = true
  /\ passes_acceptance_at false (gH 0) = true.
Proof. split; reflexivity. Qed.

(* ================= (4) measurement =================
   old_* : history. The engine BEFORE the repairs e7dd78371 / 5cb9f09ff (model M_old);
   kept so that a regression to that code is recognised. *)


Theorem exponent_is_g : forall x1 z1 x2 z2, (exponent_bit x1 z1 x2 z2) mod 4 = (ag_g x1 z1 x2 z2) mod 4.
Proof. exact ProofsMeasure.exponent_is_g. Qed.
Print Assumptions exponent_is_g.

Theorem rowsum_product : forall n wh wi psi b, row_wf n wh -> row_wf n wi -> length b = n ->
  pact wi (pact wh psi) b
  = zi_mul (ipow (total_ag wh wi)) (pact (lxor (rx wi) (rx wh), lxor (rz wi) (rz wh), false) psi b).
Proof. exact ProofsMeasure.rowsum_product. Qed.
Print Assumptions rowsum_product.

Theorem rowsum_ok : forall n wh wi psi b, row_wf n wh -> row_wf n wi -> length b = n -> (total_ag wh wi) mod 2 = 0 ->
  pact (rowsum_ag wh wi) psi b = pact wi (pact wh psi) b.
Proof. exact ProofsMeasure.rowsum_ok. Qed.
Print Assumptions rowsum_ok.

Theorem rowsum_bits_is_ag : forall wh wi, rowsum_bits wh wi = rowsum_ag wh wi.
Proof. exact ProofsMeasure.rowsum_bits_is_ag. Qed.
Print Assumptions rowsum_bits_is_ag.

Theorem old_rowsum_packed_refuted : exists wh wi, row_wf 2 wh /\ row_wf 2 wi /\ (total_ag wh wi) mod 2 = 0
                /\ rowsum_packed wh wi <> rowsum_ag wh wi.
Proof. exact ProofsMeasure.rowsum_packed_refuted. Qed.
Print Assumptions old_rowsum_packed_refuted.

Theorem old_determined_refuted : exists n T q, T = witness_T /\ n = 3%nat /\ first_p n q T = None
                /\ rr (determined_real n T q) <> rr (determined_spec n T q).
Proof. exact ProofsMeasure.determined_refuted. Qed.
Print Assumptions old_determined_refuted.

Theorem rowsum_stabilises : forall n wh wi psi, row_wf n wh -> row_wf n wi -> (total_ag wh wi) mod 2 = 0 ->
  stabilises n wh psi -> stabilises n wi psi -> stabilises n (rowsum_ag wh wi) psi.
Proof. exact ProofsMeasure.rowsum_stabilises. Qed.
Print Assumptions rowsum_stabilises.

Theorem M_real_is_spec : forall qs n T o, M_real n T qs o = M_spec n T qs o.
Proof. exact ProofsMeasure2.M_real_is_spec. Qed.
Print Assumptions M_real_is_spec.

Theorem determined_bits_is_spec : forall n T q, determined_bits n T q = determined_spec n T q.
Proof. exact ProofsMeasure2.determined_bits_is_spec. Qed.
Print Assumptions determined_bits_is_spec.

Theorem stab_pair_even : forall n acc w psi,
  row_wf n acc -> row_wf n w -> stabilises n acc psi -> stabilises n w psi -> nonzero n psi ->
  (total_ag acc w) mod 2 = 0.
Proof. exact ProofsMeasure2.stab_pair_even. Qed.
Print Assumptions stab_pair_even.

Theorem determined_spec_stabilises : forall n T q psi,
  nonzero n psi ->
  (forall i, (i < n)%nat -> row_wf n (trow T (n + i)) /\ stabilises n (trow T (n + i)) psi) ->
  row_wf n (determined_spec n T q) /\ stabilises n (determined_spec n T q) psi.
Proof. exact ProofsMeasure2.determined_spec_stabilises. Qed.
Print Assumptions determined_spec_stabilises.

Theorem determined_support : forall n q o psi,
  (q < n)%nat -> stabilises n (zeros n, unit_vec n q, o) psi ->
  forall b, length b = n -> bit q b <> o -> psi b = zi0.
Proof. exact ProofsMeasure2.determined_support. Qed.
Print Assumptions determined_support.

Theorem random_outcome_half : forall n q w psi,
  (q < n)%nat -> row_wf n w -> stabilises n w psi -> bit q (rx w) = true ->
  forall b, length b = n ->
    zi_norm2 (psi b) = zi_norm2 (psi (lxor b (rx w))) /\ bit q (lxor b (rx w)) = negb (bit q b)
    /\ length (lxor b (rx w)) = n.
Proof. exact ProofsMeasure2.random_outcome_half. Qed.
Print Assumptions random_outcome_half.

Theorem tableau_inv_M : forall total det qs n T o s T',
  Inv n T -> Forall (fun q => (q < n)%nat) qs ->
  measure (rowsum_with total) det n T qs o = Some (s, T') -> Inv n T'.
Proof. exact ProofsMeasure3.tableau_inv_M. Qed.
Print Assumptions tableau_inv_M.

Theorem tableau_inv_gate : forall n o T, Inv n T -> op_symp o = true -> op_valid n o = true -> Inv n (tab_op o T).
Proof. exact ProofsMeasure3.Inv_tab_op. Qed.
Print Assumptions tableau_inv_gate.

Theorem determined_row_is_zq : forall n T q,
  Inv n T -> (q < n)%nat -> (forall i, (i < n)%nat -> bit q (rx (trow T (n + i))) = false) ->
  rx (determined_spec n T q) = zeros n /\ rz (determined_spec n T q) = unit_vec n q.
Proof. exact ProofsBorn.determined_row_is_zq. Qed.
Print Assumptions determined_row_is_zq.

Theorem tableau_inv_zero_state : forall n, Inv n (zero_state n).
Proof. exact ProofsBorn.Inv_zero_state. Qed.
Print Assumptions tableau_inv_zero_state.

(* Born support of a WHOLE sampled bitstring: Good n T psi = the commutation relations hold, psi is not the
   zero vector, the stabiliser rows stabilise psi; agrees b qs s = the bits of b on the measured qubits are s *)
Theorem born_support : forall qs n T o s T' psi,
  Good n T psi -> Forall (fun q => (q < n)%nat) qs ->
  M_spec n T qs o = Some (s, T') ->
  exists b, length b = n /\ psi b <> zi0 /\ agrees b qs s.
Proof. exact ProofsBorn.born_support. Qed.
Print Assumptions born_support.

Theorem born_support_circuit : forall n os qs o s T',
  Forall (fun o => sop_check o = true) os -> Forall (sop_valid n) os ->
  Forall (fun o => op_symp (sop_op o) = true) os ->
  nonzero n (run_spec os psi0) -> Forall (fun q => (q < n)%nat) qs ->
  M_real n (exec (map sop_op os) (zero_state n)) qs o = Some (s, T') ->
  exists b, length b = n /\ run_spec os psi0 b <> zi0 /\ agrees b qs s.
Proof. exact ProofsBorn.born_support_circuit. Qed.
Print Assumptions born_support_circuit.

Theorem born_support_execute : forall half n c l T qs o s T',
  sops_of c = Some l -> Forall (sop_valid n) l -> execute_circuit_at half n c = Final T ->
  nonzero n (run_spec l psi0) -> Forall (fun q => (q < n)%nat) qs ->
  M_real n T qs o = Some (s, T') ->
  exists b, length b = n /\ run_spec l psi0 b <> zi0 /\ agrees b qs s.
Proof. exact ProofsBorn.born_support_execute. Qed.
Print Assumptions born_support_execute.

Example born_support_nonvacuous :
  Good 3 witness_T (run_spec witness_sops psi0)
  /\ exists s T', M_real 3 witness_T [2; 0; 1]%nat [true] = Some (s, T') /\ s = [false; true; true].
Proof.
  split.
  - split; [apply ProofsMeasure3.Inv_b_sound; vm_compute; reflexivity|]. split.
    + exists [false; false; false]. split; [reflexivity|]. vm_compute. discriminate.
    + intros i Hi. intros b Hb.
      assert (Hi3 : i = 0%nat \/ i = 1%nat \/ i = 2%nat) by lia.
      assert (Hin : In b (allbits 3)) by (now apply ProofsBorn.in_allbits).
      assert (HB : stabilises_b 3 (trow witness_T (3 + i)) (run_spec witness_sops psi0) = true)
        by (destruct Hi3 as [-> | [-> | ->]]; vm_compute; reflexivity).
      unfold stabilises_b in HB. rewrite forallb_forall in HB. apply ProofsRules.zi_eqb_true. now apply HB.
  - eexists. eexists. split; [vm_compute; reflexivity|reflexivity].
Qed.

Example measurement_theorems_nonvacuous :
  Inv 3 (zero_state 3) /\ nonzero 3 psi0 /\ stabilises_b 3 (determined_spec 3 witness_T 2) (run_spec witness_sops psi0) = true.
Proof.
  split; [exact ProofsMeasure3.Inv_zero_state_3|]. split; [|vm_compute; reflexivity].
  exists [false; false; false]. split; [reflexivity|]. vm_compute. discriminate.
Qed.

Theorem all_rules_symplectic : forallb symp1_ok [m_I; m_H; m_S; m_SDG; m_X; m_Y; m_Z; m_SX; m_SXDG; m_RY_pi; m_RY_3pi_2] = true
  /\ forallb symp2_ok ([m_CNOT; m_CZ; m_CY; m_SWAP; m_iSWAP; m_FSWAP; m_ECR]
       ++ map m_CRX_branch [0; 1; 2; 3]%nat ++ map m_CRY_branch [0; 1; 2; 3]%nat ++ map m_CRZ_branch [0; 1; 2; 3]%nat) = true.
Proof. exact ProofsMeasure.all_rules_symplectic. Qed.
Print Assumptions all_rules_symplectic.

Theorem tableau_inv_rules : forall n o wa wb,
  op_symp o = true -> op_valid n o = true -> row_wf n wa -> row_wf n wb ->
  anticommute (row_op o wa) (row_op o wb) = anticommute wa wb.
Proof. exact ProofsMeasure.tableau_inv_rules. Qed.
Print Assumptions tableau_inv_rules.

Example rowsum_ok_nonvacuous :
  row_wf 2 ([true; false], [false; false], false) /\ row_wf 2 ([true; true], [true; true], true)
  /\ (total_ag ([true; false], [false; false], false) ([true; true], [true; true], true)) mod 2 = 1
  /\ (total_ag w_ZZ w_XX) mod 2 = 0.
Proof. repeat split. Qed.

(* ================= (5) tableau -> circuit (Aaronson-Gottesman 2004) ================= *)
Theorem ainvert_undoes : forall n c T, Forall (agate_valid n) c -> rows_wf n T ->
  run_agates (ainvert c) (run_agates c T) = T.
Proof. exact ProofsAG04.ainvert_undoes. Qed.
Print Assumptions ainvert_undoes.

Theorem sweeps_identity : forall n T, Inv n T -> trow T (2 * n) = zero_row n ->
  fst (ag04_sweeps n T) = zero_state n
  /\ Forall (agate_valid n) (snd (ag04_sweeps n T))
  /\ fst (ag04_sweeps n T) = run_agates (rev (snd (ag04_sweeps n T))) T.
Proof. exact ProofsAG04.sweeps_identity. Qed.
Print Assumptions sweeps_identity.

Theorem ag04_ok : forall n T, Inv n T -> trow T (2 * n) = zero_row n ->
  run_agates (ag04 n T) (zero_state n) = T.
Proof. exact ProofsAG04.ag04_ok. Qed.
Print Assumptions ag04_ok.

Example ag04_ok_nonvacuous :
  Inv 3 witness_T /\ trow witness_T (2 * 3) = zero_row 3 /\ length (ag04 3 witness_T) = 19%nat.
Proof. split; [apply ProofsMeasure3.Inv_b_sound; vm_compute; reflexivity|]. split; vm_compute; reflexivity. Qed.

(* ================= (6) no premise left: the state vector of a library circuit is never zero ================= *)
Theorem nonzero_run : forall n os psi, Forall (fun o => sop_unit o = true) os -> Forall (sop_valid n) os ->
  nonzero n psi -> nonzero n (run_spec os psi).
Proof. exact ProofsNonzero.nonzero_run. Qed.
Print Assumptions nonzero_run.

Theorem born_support_execute_unconditional : forall half n c l T qs o s T',
  sops_of c = Some l -> Forall (sop_valid n) l -> execute_circuit_at half n c = Final T ->
  Forall (fun q => (q < n)%nat) qs ->
  M_real n T qs o = Some (s, T') ->
  exists b, length b = n /\ run_spec l psi0 b <> zi0 /\ agrees b qs s.
Proof. exact ProofsNonzero.born_support_execute_unconditional. Qed.
Print Assumptions born_support_execute_unconditional.

(* ================= (7) repeated execution: gates, collapsing measurements, final sampling ================= *)
Theorem measure_length : forall rs det qs n T o s T', measure rs det n T qs o = Some (s, T') -> length s = length qs.
Proof. exact ProofsShot.measure_length. Qed.
Print Assumptions measure_length.

Theorem measure_Good : forall qs n T o s T' psi,
  Good n T psi -> Forall (fun q => (q < n)%nat) qs -> M_spec n T qs o = Some (s, T') ->
  Good n T' (projs qs s psi) /\ length s = length qs.
Proof. exact ProofsShot.measure_Good. Qed.
Print Assumptions measure_Good.

Theorem projs_agrees : forall qs s psi b, length s = length qs -> projs qs s psi b <> zi0 -> psi b <> zi0 /\ agrees b qs s.
Proof. exact ProofsShot.projs_agrees. Qed.
Print Assumptions projs_agrees.

Theorem shot_Good : forall prog n T psi outs T',
  Forall (sstep_ok n) prog -> Good n T psi -> run_ssteps n prog T = Some (outs, T') ->
  Good n T' (spec_state prog outs psi).
Proof. exact ProofsShot.shot_Good. Qed.
Print Assumptions shot_Good.

Theorem run_shot_support : forall half n prog sp fq fd outs s,
  ssteps_of prog = Some sp ->
  (forall o, In (SGate o) sp -> sop_valid n o) ->
  (forall qs d, In (PCollapse qs d) prog -> Forall (fun q => (q < n)%nat) qs) ->
  Forall (fun q => (q < n)%nat) fq ->
  run_shot half n prog fq fd = Some (outs, s) ->
  exists b, length b = n /\ spec_state sp outs psi0 b <> zi0 /\ agrees b fq s.
Proof. exact ProofsShot.run_shot_support. Qed.
Print Assumptions run_shot_support.

Example run_shot_nonvacuous :
  run_shot false 1 [PGate (gH 0); PCollapse [0%nat] [true]] [0%nat] [] = Some ([[true]], [true]).
Proof. vm_compute. reflexivity. Qed.

(* ================= (8) which multiples of pi/2 the flag accepts ================= *)
Theorem flag_characterised_K : forall k, - 4096 <= k <= 4096 ->
  flag (ang_a k) = exactly_representable k /\ flag (ang_b k) = exactly_representable k.
Proof. exact ProofsFloat.flag_characterised_K. Qed.
Print Assumptions flag_characterised_K.

Theorem flag_family_large : forall (neg : bool) (o : positive) (j : Z),
  In o [1; 3; 5; 7; 9]%positive -> 0 <= j <= 200 ->
  flag (ang_of (f_o2j neg o j)) = true /\ rot_branch (ang_of (f_o2j neg o j)) = kmod4 neg o j.
Proof. exact ProofsFloat2.flag_family_large. Qed.
Print Assumptions flag_family_large.
