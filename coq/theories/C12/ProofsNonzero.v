(* C12/ProofsNonzero.v : the state vector of a circuit of library gates is never the zero vector.
   Every gate matrix U of Pauli.v satisfies  U^dagger U = kappa * 1  (kappa = 1, 2 or 4: the squared scale factor),
   checked entrywise over the Gaussian integers; applying U^dagger after U on the same qubits therefore
   multiplies every amplitude by kappa, so U psi = 0 forces psi = 0.  This removes the premise `nonzero`
   from the Born-support theorems for circuits started in |0..0>. *)
From Coq Require Import ZArith List Bool Arith Lia Ring.
From QV Require Import Base.Mat Base.Zi C12.ModelFloat C12.ModelTableau C12.ModelExec C12.ModelMeasure C12.Pauli
  C12.ProofsRules C12.ProofsCircuit C12.ProofsMeasure C12.ProofsMeasure2 C12.ProofsMeasure3 C12.ProofsBorn.
Import ListNotations.
Local Open Scope Z_scope.

Definition adj1 (U : m1) : m1 := fun a c => zi_conj (U c a).
Definition adj2 (U : m2) : m2 := fun a1 a2 c1 c2 => zi_conj (U c1 c2 a1 a2).
Definition kap (k : Z) : Zi := (k, 0).

Definition unit1b (U : m1) (k : Z) : bool :=
  forallb (fun a => forallb (fun d =>
    zi_eqb (zi_add (zi_mul (adj1 U a false) (U false d)) (zi_mul (adj1 U a true) (U true d)))
           (if Bool.eqb a d then kap k else zi0)) bools) bools.

Definition unit2b (U : m2) (k : Z) : bool :=
  forallb (fun a1 => forallb (fun a2 => forallb (fun d1 => forallb (fun d2 =>
    zi_eqb (zi_add (zi_add (zi_mul (adj2 U a1 a2 false false) (U false false d1 d2))
                           (zi_mul (adj2 U a1 a2 false true) (U false true d1 d2)))
                   (zi_add (zi_mul (adj2 U a1 a2 true false) (U true false d1 d2))
                           (zi_mul (adj2 U a1 a2 true true) (U true true d1 d2))))
           (if Bool.eqb a1 d1 && Bool.eqb a2 d2 then kap k else zi0)) bools) bools) bools) bools.

Lemma unit1_sound U k : unit1b U k = true -> forall a d,
  zi_add (zi_mul (adj1 U a false) (U false d)) (zi_mul (adj1 U a true) (U true d))
  = if Bool.eqb a d then kap k else zi0.
Proof.
  unfold unit1b. intros H a d.
  rewrite forallb_forall in H. specialize (H a (in_bools a)).
  rewrite forallb_forall in H. specialize (H d (in_bools d)). now apply zi_eqb_true.
Qed.

Lemma unit2_sound U k : unit2b U k = true -> forall a1 a2 d1 d2,
  zi_add (zi_add (zi_mul (adj2 U a1 a2 false false) (U false false d1 d2))
                 (zi_mul (adj2 U a1 a2 false true) (U false true d1 d2)))
         (zi_add (zi_mul (adj2 U a1 a2 true false) (U true false d1 d2))
                 (zi_mul (adj2 U a1 a2 true true) (U true true d1 d2)))
  = if Bool.eqb a1 d1 && Bool.eqb a2 d2 then kap k else zi0.
Proof.
  unfold unit2b. intros H a1 a2 d1 d2.
  rewrite forallb_forall in H. specialize (H a1 (in_bools a1)).
  rewrite forallb_forall in H. specialize (H a2 (in_bools a2)).
  rewrite forallb_forall in H. specialize (H d1 (in_bools d1)).
  rewrite forallb_forall in H. specialize (H d2 (in_bools d2)). now apply zi_eqb_true.
Qed.

(* U^dagger after U on the same qubit multiplies every amplitude by kappa *)
Lemma app1_adjoint U k q psi b : unit1b U k = true -> (q < length b)%nat ->
  app1 (adj1 U) q (app1 U q psi) b = zi_mul (kap k) (psi b).
Proof.
  intros HU Hq. pose proof (unit1_sound U k HU) as HS.
  unfold app1 at 1. unfold app1. rewrite !bit_upd_same by assumption. rewrite !upd_upd.
  set (a := bit q b). set (p0 := psi (upd q false b)). set (p1 := psi (upd q true b)).
  assert (Eb : psi b = if a then p1 else p0).
  { unfold p0, p1, a. destruct (bit q b) eqn:E; rewrite <- E; now rewrite upd_same. }
  rewrite Eb. clearbody a p0 p1.
  transitivity (zi_add (zi_mul (zi_add (zi_mul (adj1 U a false) (U false false)) (zi_mul (adj1 U a true) (U true false))) p0)
                       (zi_mul (zi_add (zi_mul (adj1 U a false) (U false true)) (zi_mul (adj1 U a true) (U true true))) p1)); [ring|].
  rewrite !HS. destruct a; cbn [Bool.eqb]; ring.
Qed.

Lemma app2_adjoint U k c t psi b : unit2b U k = true -> (c < length b)%nat -> (t < length b)%nat -> c <> t ->
  app2 (adj2 U) c t (app2 U c t psi) b = zi_mul (kap k) (psi b).
Proof.
  intros HU Hc Ht Hct. pose proof (unit2_sound U k HU) as HS.
  unfold app2 at 1. cbv zeta. unfold app2. cbv zeta.
  rewrite !(bit_upd_other t c) by congruence.
  rewrite !bit_upd_same by (rewrite ?length_upd; assumption).
  rewrite !(upd2_absorb c t) by assumption.
  set (a1 := bit c b). set (a2 := bit t b).
  set (p00 := psi (upd t false (upd c false b))). set (p01 := psi (upd t true (upd c false b))).
  set (p10 := psi (upd t false (upd c true b))). set (p11 := psi (upd t true (upd c true b))).
  assert (Eb0 : psi b = psi (upd t a2 (upd c a1 b))) by (unfold a1, a2; now rewrite (upd_same c b), (upd_same t b)).
  rewrite Eb0. clearbody a1 a2.
  assert (Eb : psi (upd t a2 (upd c a1 b)) = if a1 then (if a2 then p11 else p10) else (if a2 then p01 else p00))
    by (destruct a1, a2; reflexivity).
  rewrite Eb. clearbody p00 p01 p10 p11.
  set (V := adj2 U a1 a2) in *.
  assert (HV : forall d1 d2,
     zi_add (zi_add (zi_mul (V false false) (U false false d1 d2)) (zi_mul (V false true) (U false true d1 d2)))
            (zi_add (zi_mul (V true false) (U true false d1 d2)) (zi_mul (V true true) (U true true d1 d2)))
     = if Bool.eqb a1 d1 && Bool.eqb a2 d2 then kap k else zi0) by (intros; apply HS).
  clearbody V.
  transitivity
    (zi_add (zi_add
       (zi_mul (zi_add (zi_add (zi_mul (V false false) (U false false false false)) (zi_mul (V false true) (U false true false false)))
                       (zi_add (zi_mul (V true false) (U true false false false)) (zi_mul (V true true) (U true true false false)))) p00)
       (zi_mul (zi_add (zi_add (zi_mul (V false false) (U false false false true)) (zi_mul (V false true) (U false true false true)))
                       (zi_add (zi_mul (V true false) (U true false false true)) (zi_mul (V true true) (U true true false true)))) p01))
     (zi_add
       (zi_mul (zi_add (zi_add (zi_mul (V false false) (U false false true false)) (zi_mul (V false true) (U false true true false)))
                       (zi_add (zi_mul (V true false) (U true false true false)) (zi_mul (V true true) (U true true true false)))) p10)
       (zi_mul (zi_add (zi_add (zi_mul (V false false) (U false false true true)) (zi_mul (V false true) (U false true true true)))
                       (zi_add (zi_mul (V true false) (U true false true true)) (zi_mul (V true true) (U true true true true)))) p11)));
    [ring|].
  rewrite !HV. destruct a1, a2; cbn [Bool.eqb andb]; ring.
Qed.

(* ---- zero or not: decidable over the finitely many basis states *)
Lemma zi_eqb_refl z : zi_eqb z z = true.
Proof. destruct z. unfold zi_eqb. cbn [fst snd]. now rewrite !Z.eqb_refl. Qed.

Lemma forallb_false_witness {A} (f : A -> bool) l : forallb f l = false -> exists x, In x l /\ f x = false.
Proof.
  induction l as [|a l IH]; cbn; [discriminate|]. destruct (f a) eqn:E.
  - intros H. destruct (IH H) as [x [Hx Hf]]. exists x. auto.
  - intros _. exists a. auto.
Qed.

Lemma zero_or_nonzero n phi : (forall b, length b = n -> phi b = zi0) \/ nonzero n phi.
Proof.
  destruct (forallb (fun b => zi_eqb (phi b) zi0) (allbits n)) eqn:E.
  - left. intros b Hb. rewrite forallb_forall in E. apply zi_eqb_true. apply E. now apply in_allbits.
  - right. destruct (forallb_false_witness _ _ E) as [b [Hb Hf]]. exists b. split; [now apply in_allbits|].
    intros H0. rewrite H0, zi_eqb_refl in Hf. discriminate.
Qed.

Lemma kap_cancel k z : k <> 0 -> zi_mul (kap k) z = zi0 -> z = zi0.
Proof.
  intros Hk H. destruct z as [a b]. unfold zi_mul, kap, zi0 in *. cbn [fst snd] in H.
  injection H as H1 H2. f_equal; nia.
Qed.

Lemma nonzero_app1 n U k q psi : unit1b U k = true -> k <> 0 -> (q < n)%nat -> nonzero n psi -> nonzero n (app1 U q psi).
Proof.
  intros HU Hk Hq [b0 [Hb0 Hnz]]. destruct (zero_or_nonzero n (app1 U q psi)) as [Hz|]; auto.
  exfalso. apply Hnz. apply (kap_cancel k); auto.
  rewrite <- (app1_adjoint U k q psi b0 HU ltac:(lia)).
  rewrite (app1_ext (adj1 U) q n (app1 U q psi) (fun _ => zi0) Hz b0 Hb0). unfold app1. ring.
Qed.

Lemma nonzero_app2 n U k c t psi : unit2b U k = true -> k <> 0 -> (c < n)%nat -> (t < n)%nat -> c <> t ->
  nonzero n psi -> nonzero n (app2 U c t psi).
Proof.
  intros HU Hk Hc Ht Hct [b0 [Hb0 Hnz]]. destruct (zero_or_nonzero n (app2 U c t psi)) as [Hz|]; auto.
  exfalso. apply Hnz. apply (kap_cancel k); auto.
  rewrite <- (app2_adjoint U k c t psi b0 HU ltac:(lia) ltac:(lia) Hct).
  rewrite (app2_ext (adj2 U) c t n (app2 U c t psi) (fun _ => zi0) Hz b0 Hb0). unfold app2. cbv zeta. ring.
Qed.

(* ---- the library *)
Definition sop_unit (o : sop) : bool :=
  match o with
  | S1 U _ _ => unit1b U 1 || unit1b U 2 || unit1b U 4
  | S2 U _ _ _ => unit2b U 1 || unit2b U 2 || unit2b U 4
  end.

Lemma nonzero_sop n o psi : sop_unit o = true -> sop_valid n o -> nonzero n psi -> nonzero n (sop_app o psi).
Proof.
  intros Hu Hv Hnz. destruct o as [U f q | U f c t]; cbn [sop_unit sop_app] in *; unfold sop_valid in Hv; cbn in Hv.
  - apply Nat.ltb_lt in Hv.
    apply orb_prop in Hu. destruct Hu as [Hu|Hu]; [apply orb_prop in Hu; destruct Hu as [Hu|Hu]|].
    + apply (nonzero_app1 n U 1); auto; lia.
    + apply (nonzero_app1 n U 2); auto; lia.
    + apply (nonzero_app1 n U 4); auto; lia.
  - apply andb_prop in Hv. destruct Hv as [Hv Hne]. apply andb_prop in Hv. destruct Hv as [Hc Ht].
    apply Nat.ltb_lt in Hc. apply Nat.ltb_lt in Ht. apply negb_true_iff in Hne. apply Nat.eqb_neq in Hne.
    apply orb_prop in Hu. destruct Hu as [Hu|Hu]; [apply orb_prop in Hu; destruct Hu as [Hu|Hu]|].
    + apply (nonzero_app2 n U 1); auto; lia.
    + apply (nonzero_app2 n U 2); auto; lia.
    + apply (nonzero_app2 n U 4); auto; lia.
Qed.

Lemma nonzero_run n : forall os psi, Forall (fun o => sop_unit o = true) os -> Forall (sop_valid n) os ->
  nonzero n psi -> nonzero n (run_spec os psi).
Proof.
  unfold run_spec. induction os as [|o os IH]; intros psi Hu Hv Hnz; cbn; auto.
  inversion Hu; subst. inversion Hv; subst. apply IH; auto. now apply nonzero_sop.
Qed.

Lemma nonzero_psi0 n : nonzero n psi0.
Proof.
  exists (zeros n). split; [apply length_zeros|]. unfold psi0, zeros.
  replace (forallb negb (repeat false n)) with true; [discriminate|].
  symmetry. induction n as [|n IH]; cbn; auto.
Qed.

Lemma rot_unit j :
  sop_unit (S1 (of_mat1 (M_RX j)) id1 0) = true /\ sop_unit (S1 (of_mat1 (M_RY j)) id1 0) = true
  /\ sop_unit (S1 (of_mat1 (M_RZ j)) id1 0) = true.
Proof. destruct j as [|[|[|j]]]; repeat split; vm_compute; reflexivity. Qed.
Lemma crot_unit j :
  sop_unit (S2 (of_mat2 (M_CRX j)) id2 0 1) = true /\ sop_unit (S2 (of_mat2 (M_CRY j)) id2 0 1) = true
  /\ sop_unit (S2 (of_mat2 (M_CRZ j)) id2 0 1) = true.
Proof. destruct j as [|[|[|j]]]; repeat split; vm_compute; reflexivity. Qed.

Lemma sop_of_gate_unit g s : sop_of_gate g = Some s -> sop_unit s = true.
Proof.
  unfold sop_of_gate, m_RX, m_RY, m_RZ.
  destruct (negb (args_cover_qubits g)); [discriminate|].
  destruct (g_cls g); destruct (g_args g) as [|q [|t [|u l]]]; destruct (g_kw g) as [th|];
    try discriminate; intros H.
  all: lazymatch type of H with
       | context [crot_branch] =>
           destruct (crot_branch th) as [j|]; [|discriminate]; injection H as <-;
           destruct (crot_unit j) as [H1 [H2 H3]]; cbn [sop_unit] in *; assumption
       | context [rot_branch] =>
           injection H as <-; destruct (rot_unit (rot_branch th)) as [H1 [H2 H3]]; cbn [sop_unit] in *; assumption
       | _ => injection H as <-; vm_compute; reflexivity
       end.
Qed.

Lemma sops_of_unit : forall gs l, sops_of gs = Some l -> Forall (fun o => sop_unit o = true) l.
Proof.
  induction gs as [|g gs IH]; intros l H; cbn in H.
  - injection H as <-. constructor.
  - destruct (g_cls g) eqn:Ec;
      try (destruct (sop_of_gate g) as [s|] eqn:Es; [|discriminate];
           destruct (sops_of gs) as [l'|] eqn:El; [|discriminate];
           injection H as <-; constructor; [now apply (sop_of_gate_unit g) | now apply IH]).
    now apply IH.
Qed.

(* ---- the Born-support theorem without the premise *)
Theorem born_support_execute_unconditional half n c l T qs o s T' :
  sops_of c = Some l -> Forall (sop_valid n) l -> execute_circuit_at half n c = Final T ->
  Forall (fun q => (q < n)%nat) qs ->
  M_real n T qs o = Some (s, T') ->
  exists b, length b = n /\ run_spec l psi0 b <> zi0 /\ agrees b qs s.
Proof.
  intros Hs Hv He Hq HM. apply (born_support_execute half n c l T qs o s T'); auto.
  apply nonzero_run; auto; [now apply (sops_of_unit c) | apply nonzero_psi0].
Qed.
