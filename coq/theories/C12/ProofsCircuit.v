(* C12/ProofsCircuit.v : from single rules to whole circuits.
     exec_stabilises   every row that stabilises psi is mapped, by the tableau rules of a list of
                       verified operations, to a row that stabilises the state-vector result;
     clifford_sim_ok   started from |0..0> and CliffordBackend.zero_state;
     execute_plain_ok  the same at the level of gate records (acceptance test + apply_gate_clifford)
                       for gates whose qubits all reach the engine. *)
From Coq Require Import ZArith List Bool Arith Lia Ring PrimFloat.
From QV Require Import Base.Mat Base.Zi C12.ModelFloat C12.ModelTableau C12.ModelExec C12.ModelMeasure
  C12.Pauli C12.ProofsRules.
Import ListNotations.
Local Open Scope Z_scope.

Lemma app1_ext U q n phi psi :
  (forall b, length b = n -> phi b = psi b) -> forall b, length b = n -> app1 U q phi b = app1 U q psi b.
Proof. intros H b Hb. unfold app1. rewrite !H by (rewrite length_upd; assumption). reflexivity. Qed.

Lemma app2_ext U c t n phi psi :
  (forall b, length b = n -> phi b = psi b) -> forall b, length b = n -> app2 U c t phi b = app2 U c t psi b.
Proof. intros H b Hb. unfold app2. cbv zeta. rewrite !H by (rewrite !length_upd; assumption). reflexivity. Qed.

Lemma row_wf_app1 n f q w : row_wf n w -> row_wf n (row_app1 f q w).
Proof.
  destruct w as [[xs zs] r]. unfold row_wf, row_app1. cbn [fst snd]. intros [Hx Hz].
  destruct (f (bit q xs) (bit q zs) r) as [[x' z'] r']. cbn [fst snd]. now rewrite !length_upd.
Qed.

Lemma row_wf_app2 n f c t w : row_wf n w -> row_wf n (row_app2 f c t w).
Proof.
  destruct w as [[xs zs] r]. unfold row_wf, row_app2. cbn [fst snd]. intros [Hx Hz].
  destruct (f (bit c xs) (bit c zs) (bit t xs) (bit t zs) r) as [[[[a b] c'] d] r']. cbn [fst snd].
  now rewrite !length_upd.
Qed.

Definition sop_valid (n : nat) (o : sop) : Prop := op_valid n (sop_op o) = true.

Lemma stab_step n o w psi :
  sop_check o = true -> sop_valid n o -> row_wf n w -> stabilises n w psi ->
  row_wf n (row_op (sop_op o) w) /\ stabilises n (row_op (sop_op o) w) (sop_app o psi).
Proof.
  intros Hc Hv Hw Hs. destruct o as [U f q | U f c t]; cbn [sop_op row_op sop_app sop_check] in *.
  - unfold sop_valid in Hv. cbn in Hv. apply Nat.ltb_lt in Hv.
    split; [now apply row_wf_app1|].
    intros b Hb. rewrite <- (app1_conj U f Hc n q w psi b Hv Hw Hb).
    apply app1_ext with (n := n); auto.
  - unfold sop_valid in Hv. cbn in Hv.
    apply andb_prop in Hv. destruct Hv as [Hv Hne]. apply andb_prop in Hv. destruct Hv as [Hc' Ht'].
    apply Nat.ltb_lt in Hc'. apply Nat.ltb_lt in Ht'.
    apply negb_true_iff in Hne. apply Nat.eqb_neq in Hne.
    split; [now apply row_wf_app2|].
    intros b Hb. rewrite <- (app2_conj U f Hc n c t w psi b Hc' Ht' Hne Hw Hb).
    apply app2_ext with (n := n); auto.
Qed.

Theorem exec_stabilises n : forall os L psi,
  Forall (fun o => sop_check o = true) os -> Forall (sop_valid n) os ->
  (forall w, In w L -> row_wf n w /\ stabilises n w psi) ->
  forall w, In w (exec_rows (map sop_op os) L) -> row_wf n w /\ stabilises n w (run_spec os psi).
Proof.
  induction os as [|o os IH]; intros L psi Hc Hv HL w Hw; cbn in *.
  - now apply HL.
  - inversion Hc; subst. inversion Hv; subst.
    apply (IH (map (row_op (sop_op o)) L) (sop_app o psi)); auto.
    intros w' Hw'. apply in_map_iff in Hw'. destruct Hw' as [w0 [<- Hw0]].
    destruct (HL w0 Hw0). now apply stab_step.
Qed.

(* ---- the tableau of execute_circuit *)
Lemma stabilisers_tab_op n o T : stabilisers n (tab_op o T) = map (row_op o) (stabilisers n T).
Proof. unfold stabilisers, tab_op. now rewrite skipn_map, firstn_map. Qed.

Lemma stabilisers_exec n os : forall T, stabilisers n (exec os T) = exec_rows os (stabilisers n T).
Proof.
  induction os as [|o os IH]; intros T; cbn; auto.
  unfold exec in *. cbn. rewrite IH. now rewrite stabilisers_tab_op.
Qed.

Lemma stabilisers_zero n :
  stabilisers n (zero_state n) = map (fun i => (zeros n, unit_vec n i, false)) (seq 0 n).
Proof.
  unfold stabilisers, zero_state.
  rewrite skipn_app. rewrite skipn_all2 by (rewrite map_length, seq_length; lia).
  rewrite map_length, seq_length, Nat.sub_diag. cbn [skipn app].
  rewrite firstn_app. rewrite map_length, seq_length, Nat.sub_diag. cbn [firstn].
  rewrite firstn_all2 by (rewrite map_length, seq_length; lia). now rewrite app_nil_r.
Qed.

Lemma lxor_zeros b : lxor b (zeros (length b)) = b.
Proof.
  unfold zeros. induction b as [|a b IH]; cbn; auto. rewrite IH. now rewrite xorb_false_r.
Qed.

Lemma phs_zeros_allfalse zs : forall b, forallb negb b = true -> phs (zeros (length b)) zs b = 0.
Proof.
  unfold zeros. induction zs as [|z zs IH]; intros [|a b] H; cbn in *; auto.
  apply andb_prop in H. destruct H as [Ha Hb]. destruct a; [discriminate|].
  rewrite IH by assumption. unfold loc. cbn. rewrite andb_false_r. reflexivity.
Qed.

Lemma length_unit_vec n i : length (unit_vec n i) = n.
Proof. unfold unit_vec. now rewrite map_length, seq_length. Qed.
Lemma length_zeros n : length (zeros n) = n.
Proof. unfold zeros. apply repeat_length. Qed.

(* every Z-type row with r = 0 stabilises |0..0> *)
Lemma z_row_stabilises_psi0 n zs : stabilises n (zeros n, zs, false) psi0.
Proof.
  intros b Hb. unfold pact, rx, rz, rr. cbn [fst snd]. subst n.
  rewrite lxor_zeros. unfold psi0.
  destruct (forallb negb b) eqn:E.
  - rewrite phs_zeros_allfalse by assumption. cbn. reflexivity.
  - ring.
Qed.

Theorem clifford_sim_ok n os :
  Forall (fun o => sop_check o = true) os -> Forall (sop_valid n) os ->
  forall w, In w (stabilisers n (exec (map sop_op os) (zero_state n))) ->
    row_wf n w /\ stabilises n w (run_spec os psi0).
Proof.
  intros Hc Hv w Hw. rewrite stabilisers_exec in Hw.
  apply (exec_stabilises n os _ psi0 Hc Hv) in Hw; auto.
  intros w0 H0. rewrite stabilisers_zero in H0. apply in_map_iff in H0. destruct H0 as [i [<- _]].
  split.
  - split; cbn [fst snd]; [apply length_zeros | apply length_unit_vec].
  - apply z_row_stabilises_psi0.
Qed.

(* ---------------------------------------------------------------- gate records *)
(* the operator a plain (not generically controlled) gate of the library MEANS, paired with the rule
   the engine applies.  Rotation gates mean the exact rotation at (branch)*pi/2 resp. (branch)*pi:
   for theta = fl(k*pi/2), |k| <= 4096, flagged, the branch is k mod 4 (dispatch_selects_K). *)
Definition sop_of_gate (g : gate) : option sop :=
  if negb (args_cover_qubits g) then None else
  match g_cls g, g_args g, g_kw g with
  | cI, [q], None => Some (S1 (of_mat1 M_I) m_I q)
  | cH, [q], None => Some (S1 (of_mat1 M_H) m_H q)
  | cX, [q], None => Some (S1 (of_mat1 M_X) m_X q)
  | cY, [q], None => Some (S1 (of_mat1 M_Y) m_Y q)
  | cZ, [q], None => Some (S1 (of_mat1 M_Z) m_Z q)
  | cS, [q], None => Some (S1 (of_mat1 M_S) m_S q)
  | cSDG, [q], None => Some (S1 (of_mat1 M_SDG) m_SDG q)
  | cSX, [q], None => Some (S1 (of_mat1 M_SX) m_SX q)
  | cSXDG, [q], None => Some (S1 (of_mat1 M_SXDG) m_SXDG q)
  | cRX, [q], Some th => Some (S1 (of_mat1 (M_RX (rot_branch th))) (m_RX th) q)
  | cRY, [q], Some th => Some (S1 (of_mat1 (M_RY (rot_branch th))) (m_RY th) q)
  | cRZ, [q], Some th => Some (S1 (of_mat1 (M_RZ (rot_branch th))) (m_RZ th) q)
  | cCNOT, [c; t], None => Some (S2 (of_mat2 M_CNOT) m_CNOT c t)
  | cCY, [c; t], None => Some (S2 (of_mat2 M_CY) m_CY c t)
  | cCZ, [c; t], None => Some (S2 (of_mat2 M_CZ) m_CZ c t)
  | cSWAP, [c; t], None => Some (S2 (of_mat2 M_SWAP) m_SWAP c t)
  | ciSWAP, [c; t], None => Some (S2 (of_mat2 M_iSWAP) m_iSWAP c t)
  | cFSWAP, [c; t], None => Some (S2 (of_mat2 M_FSWAP) m_FSWAP c t)
  | cECR, [c; t], None => Some (S2 (of_mat2 M_ECR) m_ECR c t)
  | cCRX, [c; t], Some th =>
      match crot_branch th with Some j => Some (S2 (of_mat2 (M_CRX j)) (m_CRX_branch j) c t) | None => None end
  | cCRY, [c; t], Some th =>
      match crot_branch th with Some j => Some (S2 (of_mat2 (M_CRY j)) (m_CRY_branch j) c t) | None => None end
  | cCRZ, [c; t], Some th =>
      match crot_branch th with Some j => Some (S2 (of_mat2 (M_CRZ j)) (m_CRZ_branch j) c t) | None => None end
  | _, _, _ => None
  end.

Fixpoint sops_of (gs : list gate) : option (list sop) :=
  match gs with
  | [] => Some []
  | g :: gs' =>
      match g_cls g with
      | cM => sops_of gs'          (* non-collapsing measurement: no effect on the state *)
      | _ => match sop_of_gate g, sops_of gs' with
             | Some s, Some l => Some (s :: l)
             | _, _ => None
             end
      end
  end.

Lemma rx_check j : L1b (of_mat1 (M_RX j)) (m_RX_branch j) = true.
Proof. destruct j as [|[|[|j]]]; vm_compute; reflexivity. Qed.
Lemma ry_check j : L1b (of_mat1 (M_RY j)) (m_RY_branch j) = true.
Proof. destruct j as [|[|[|j]]]; vm_compute; reflexivity. Qed.
Lemma rz_check j : L1b (of_mat1 (M_RZ j)) (m_RZ_branch j) = true.
Proof. destruct j as [|[|[|j]]]; vm_compute; reflexivity. Qed.
Lemma crx_check j : L2b (of_mat2 (M_CRX j)) (m_CRX_branch j) = true.
Proof. destruct j as [|[|[|j]]]; vm_compute; reflexivity. Qed.
Lemma cry_check j : L2b (of_mat2 (M_CRY j)) (m_CRY_branch j) = true.
Proof. destruct j as [|[|[|j]]]; vm_compute; reflexivity. Qed.
Lemma crz_check j : L2b (of_mat2 (M_CRZ j)) (m_CRZ_branch j) = true.
Proof. destruct j as [|[|[|j]]]; vm_compute; reflexivity. Qed.

Lemma sop_of_gate_ok g s : sop_of_gate g = Some s ->
  sop_check s = true /\ apply_gate_clifford g = AOp (sop_op s).
Proof.
  unfold sop_of_gate, apply_gate_clifford, m_RX, m_RY, m_RZ, m_CRX, m_CRY, m_CRZ.
  destruct (negb (args_cover_qubits g)); [discriminate|].
  destruct (g_cls g); destruct (g_args g) as [|q [|t [|u l]]]; destruct (g_kw g) as [th|];
    try discriminate; intros H.
  all: lazymatch type of H with
       | context [crot_branch] =>
           destruct (crot_branch th) as [j|]; [|discriminate]; injection H as <-;
           split; [cbn [sop_check]; lazymatch goal with
                   | |- L2b (of_mat2 (M_CRX _)) _ = true => apply crx_check
                   | |- L2b (of_mat2 (M_CRY _)) _ = true => apply cry_check
                   | |- L2b (of_mat2 (M_CRZ _)) _ = true => apply crz_check
                   end | reflexivity]
       | context [rot_branch] =>
           injection H as <-;
           split; [cbn [sop_check]; lazymatch goal with
                   | |- L1b (of_mat1 (M_RX _)) _ = true => apply rx_check
                   | |- L1b (of_mat1 (M_RY _)) _ = true => apply ry_check
                   | |- L1b (of_mat1 (M_RZ _)) _ = true => apply rz_check
                   end | reflexivity]
       | _ => injection H as <-; split; [vm_compute; reflexivity | reflexivity]
       end.
Qed.

Lemma run_gates_sops : forall gs l T, sops_of gs = Some l ->
  (forall s, In s l -> sop_check s = true) /\ run_gates gs T = Final (exec (map sop_op l) T).
Proof.
  induction gs as [|g gs IH]; intros l T H; cbn in H.
  - injection H as <-. split; [intros s []|reflexivity].
  - destruct (g_cls g) eqn:Ec;
      try (destruct (sop_of_gate g) as [s|] eqn:Es; [|discriminate];
           destruct (sops_of gs) as [l'|] eqn:El; [|discriminate];
           injection H as <-;
           destruct (sop_of_gate_ok g s Es) as [Hck Hap];
           destruct (IH l' (tab_op (sop_op s) T) eq_refl) as [Hall Hrun];
           split; [intros s0 [<-|Hin]; auto | cbn [run_gates]; rewrite Hap; exact Hrun]).
    (* cM *)
    destruct (IH l T H) as [Hall Hrun]. split; auto.
    cbn [run_gates]. unfold apply_gate_clifford. rewrite Ec. exact Hrun.
Qed.

(* the accepted circuits whose gates are plain library gates on valid qubits are simulated correctly:
   every stabiliser generator of the final tableau stabilises the exact state-vector result *)
Theorem execute_plain_ok half n c l T :
  sops_of c = Some l -> Forall (sop_valid n) l ->
  execute_circuit_at half n c = Final T ->
  forall w, In w (stabilisers n T) -> row_wf n w /\ stabilises n w (run_spec l psi0).
Proof.
  intros Hs Hv He w Hw. unfold execute_circuit_at in He.
  destruct (accepted_at half c); [|discriminate].
  destruct (run_gates_sops c l (zero_state n) Hs) as [Hall Hrun].
  rewrite Hrun in He. injection He as <-.
  apply clifford_sim_ok; auto. now apply Forall_forall.
Qed.
