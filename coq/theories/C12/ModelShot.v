(* C12/ModelShot.v : one shot of CliffordBackend.execute_circuit on a circuit with collapsing measurements
   (what execute_circuit_repeated runs nshots times), followed by the sampling of the final measurement.
     gate            -> apply_gate_clifford (engine rule on the packed state)
     M(collapse=True)-> backend.sample_shots(state, sorted(target_qubits), n, 1, True) = engine.M(..., collapse=True):
                        the outcomes are recorded and the collapsed tableau is written back
     afterwards      -> Clifford.samples(): sample_shots(final tableau, measurement_gate.qubits, n, 1) = engine.M on a copy
   The random draws of every engine.M call are an oracle attached to the step (the harness records them per call).
   The column order of every sample is the order of the qubit list handed to engine.M. *)
From Coq Require Import List Bool Arith.
From QV Require Import C12.ModelFloat C12.ModelTableau C12.ModelExec C12.ModelMeasure.
Import ListNotations.

Inductive step :=
| PGate (g : gate)
| PCollapse (qs : list nat) (draws : list bool).    (* qs = sorted(target_qubits) as the gate passes them *)

(* returns the recorded mid-circuit samples (in program order) and the final tableau; None = crash / oracle exhausted *)
Fixpoint run_steps (n : nat) (prog : list step) (T : tableau) : option (list (list bool) * tableau) :=
  match prog with
  | [] => Some ([], T)
  | PGate g :: prog' =>
      match apply_gate_clifford g with
      | AOp o => run_steps n prog' (tab_op o T)
      | ANone | ASkip => run_steps n prog' T
      | ACrash => None
      end
  | PCollapse qs draws :: prog' =>
      match M_real n T qs draws with
      | Some (s, T1) =>
          match run_steps n prog' T1 with
          | Some (outs, T2) => Some (s :: outs, T2)
          | None => None
          end
      | None => None
      end
  end.

Definition step_gate (s : step) : list gate := match s with PGate g => [g] | PCollapse _ _ => [] end.

(* one shot: acceptance test, the steps, then the final sampling on a copy of the final tableau *)
Definition run_shot (half : bool) (n : nat) (prog : list step) (final_qs : list nat) (final_draws : list bool)
  : option (list (list bool) * list bool) :=
  if accepted_at half (flat_map step_gate prog) then
    match run_steps n prog (zero_state n) with
    | Some (outs, T) =>
        match M_real n T final_qs final_draws with
        | Some (s, _) => Some (outs, s)
        | None => None
        end
    | None => None
    end
  else None.
