(* C12/PropsRecord.v : statements behind the history / measurement-order streams of harness/c12_hist.py *)
From Coq Require Import List Bool Arith.
From QV Require Import C12.ModelFloat C12.ModelTableau C12.ModelExec C12.ModelMeasure C12.ModelShot C12.ModelRecord C12.ProofsRecord.
Import ListNotations.

(* A collapsing measurement on ANY listing tq of its qubits (non-ascending, permuted): if the engine is handed a list srt
   that contains the gate's qubits and returns one bit per listed qubit in the order of that list, the record equals the
   per-qubit outcomes in the gate's own order. *)
Theorem record_by_qubit : forall f tq srt, incl tq srt -> record tq srt (sample_of f srt) = sample_of f tq.
Proof. exact record_by_qubit_proof. Qed.
Print Assumptions record_by_qubit.

(* The outcome attributed to a qubit is a function of that qubit's outcome only: independent of the order in which the
   gate lists its qubits. *)
Theorem attributed_is_outcome : forall f tq srt q, incl tq srt -> In q tq ->
  attributed tq (record tq srt (sample_of f srt)) q = f q.
Proof. exact attributed_is_outcome_proof. Qed.
Print Assumptions attributed_is_outcome.

Example record_by_qubit_nonvacuous :
  incl [2; 0; 1] [0; 1; 2] /\ record [2; 0; 1] [0; 1; 2] (sample_of (fun q => Nat.eqb q 2) [0; 1; 2]) = [true; false; false].
Proof. split; [intros q H; cbn in *; tauto | reflexivity]. Qed.

(* The contract between the two sites is necessary: if the engine is handed the gate's own (non-ascending) list while the
   recorder still assumes the sorted list, the permutation is applied twice and a bit is attributed to the wrong qubit. *)
Theorem record_unsorted_sample_refuted : exists f tq srt, incl tq srt /\ record tq srt (sample_of f tq) <> sample_of f tq.
Proof. exists (fun q => Nat.eqb q 2), [2; 0], [0; 2]. split; [intros q H; cbn in *; tauto | cbn; discriminate]. Qed.
Print Assumptions record_unsorted_sample_refuted.

(* Executing a program from a given tableau composes: running p2 from the tableau left by p1 (a user-supplied initial
   state, a second execution of a long-lived circuit) is running p1 ++ p2; the recorded outcomes concatenate. *)
Theorem run_steps_app : forall n p1 p2 T,
  run_steps n (p1 ++ p2) T =
  match run_steps n p1 T with
  | Some (o1, T1) => match run_steps n p2 T1 with Some (o2, T2) => Some (o1 ++ o2, T2) | None => None end
  | None => None
  end.
Proof. exact run_steps_app_proof. Qed.
Print Assumptions run_steps_app.

Theorem initial_state_composes : forall n prep body T0 o1 T1,
  run_steps n prep T0 = Some (o1, T1) ->
  run_steps n (prep ++ body) T0 = match run_steps n body T1 with Some (o2, T2) => Some (o1 ++ o2, T2) | None => None end.
Proof. intros n prep body T0 o1 T1 H. rewrite run_steps_app, H. reflexivity. Qed.
Print Assumptions initial_state_composes.
