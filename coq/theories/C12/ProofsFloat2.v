(* C12/ProofsFloat2.v : which multiples of pi/2 the Clifford flag accepts, and why.
   fl(pi) = M * 2^-48 with M = 0x1921fb54442d18 / 8 odd (50 bits).  k * fl(pi) is exactly representable iff
   (odd part of k) * M < 2^53, i.e. iff the odd part of |k| is at most 9; exactly then
   fl(k*pi)/2 is an exact multiple of fl(pi/2), the float remainder is 0 and the flag is True.
     flag_characterised_K   |k| <= 4096 (bounded sweep, both spellings): flag(fl(k*pi/2)) = true  <->  odd part of |k| <= 9 (or k = 0)
     flag_family_all_magnitudes   for every exponent j <= 1000 and odd o <= 9 (both signs): k = o * 2^j is flagged and the engine
                            dispatch takes the branch of k mod 4 -- the accepted multiples are not bounded in magnitude *)
From Coq Require Import ZArith List Bool Arith Lia PrimFloat SpecFloat FloatOps.
From QV Require Import C12.ModelFloat C12.ProofsFloat.
Import ListNotations.
Local Open Scope Z_scope.

Fixpoint odd_part_fuel (fuel : nat) (k : Z) : Z :=
  match fuel with
  | O => k
  | S f => if Z.even k && negb (k =? 0) then odd_part_fuel f (k / 2) else k
  end.
Definition odd_part (k : Z) : Z := odd_part_fuel 64 (Z.abs k).
Definition exactly_representable (k : Z) : bool := odd_part k <=? 9.

Theorem flag_characterised_K : forall k, - 4096 <= k <= 4096 ->
  flag (ang_a k) = exactly_representable k /\ flag (ang_b k) = exactly_representable k.
Proof.
  intros k Hk.
  pose proof (forallb_zsym (fun k => Bool.eqb (flag (ang_a k)) (exactly_representable k)
                                     && Bool.eqb (flag (ang_b k)) (exactly_representable k))
                4096 ltac:(lia) ltac:(vm_compute; reflexivity) k Hk) as H.
  cbv beta in H. apply andb_prop in H. destruct H as [H1 H2]. split; now apply eqb_prop.
Qed.

(* the float o * 2^j (exact), as Python's int -> float conversion gives it *)
Definition f_o2j (neg : bool) (o : positive) (j : Z) : float := SF2Prim (S754_finite neg o j).
Definition ang_of (x : float) : float := PrimFloat.div (PrimFloat.mul x f_pi) 2%float.     (* x * np.pi / 2 *)
Definition kmod4 (neg : bool) (o : positive) (j : Z) : nat :=
  Z.to_nat ((if neg then - (Z.pos o * 2 ^ j) else Z.pos o * 2 ^ j) mod 4).

Definition family_ok (neg : bool) (o : positive) (j : Z) : bool :=
  let x := ang_of (f_o2j neg o j) in
  flag x && Nat.eqb (rot_branch x) (kmod4 neg o j).

Theorem flag_family_all_magnitudes : forall (neg : bool) (o : positive) (j : Z),
  In o [1; 3; 5; 7; 9]%positive -> 0 <= j <= 1000 ->
  flag (ang_of (f_o2j neg o j)) = true /\ rot_branch (ang_of (f_o2j neg o j)) = kmod4 neg o j.
Proof.
  intros neg o j Ho Hj.
  assert (H : forallb (fun o => forallb (fun j => family_ok false o j && family_ok true o j) (zrange_from 0 1001))
                      [1; 3; 5; 7; 9]%positive = true) by (vm_compute; reflexivity).
  rewrite forallb_forall in H. specialize (H o Ho). rewrite forallb_forall in H.
  specialize (H j (In_zrange_from 1001 0 j ltac:(lia))). apply andb_prop in H. destruct H as [H1 H2].
  unfold family_ok in *. destruct neg; [apply andb_prop in H2; destruct H2 as [A B] | apply andb_prop in H1; destruct H1 as [A B]];
    split; auto; now apply Nat.eqb_eq.
Qed.

(* the family really is the multiples k*pi/2 of the sweep: for small k both constructions give the same float *)
Example family_matches_sweep :
  forallb (fun p => same_float (ang_of (f_o2j false (fst p) (snd p))) (ang_a (Z.pos (fst p) * 2 ^ (snd p))))
          [(1, 0); (3, 2); (5, 7); (9, 8); (7, 9)]%positive%Z = true.
Proof. vm_compute. reflexivity. Qed.
