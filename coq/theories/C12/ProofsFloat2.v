(* C12/ProofsFloat2.v : which multiples of pi/2 the Clifford flag accepts, and why.
   fl(pi) = M * 2^-48 with M = 0x1921fb54442d18 / 8 odd (50 bits).  k * fl(pi) is exactly representable iff
   (odd part of k) * M < 2^53, i.e. iff the odd part of |k| is at most 9; exactly then
   fl(k*pi)/2 is an exact multiple of fl(pi/2), the float remainder is 0 and the flag is True.
     (flag_characterised_K, |k| <= 4096, is in ProofsFloat.v)
     flag_family_large   for every exponent j <= 200 and odd o <= 9 (both signs): k = o * 2^j is flagged and the engine
                            dispatch takes the branch of k mod 4 -- the accepted multiples are not bounded in magnitude *)
From Coq Require Import ZArith List Bool Arith Lia PrimFloat SpecFloat FloatOps.
From QV Require Import C12.ModelFloat C12.ProofsFloat.
Import ListNotations.
Local Open Scope Z_scope.

(* the float o * 2^j (exact), as Python's int -> float conversion gives it *)
Definition f_o2j (neg : bool) (o : positive) (j : Z) : float := SF2Prim (S754_finite neg o j).
Definition ang_of (x : float) : float := PrimFloat.div (PrimFloat.mul x f_pi) 2%float.     (* x * np.pi / 2 *)
Definition kmod4 (neg : bool) (o : positive) (j : Z) : nat :=
  Z.to_nat ((if neg then - (Z.pos o * 2 ^ j) else Z.pos o * 2 ^ j) mod 4).

Definition family_ok (neg : bool) (o : positive) (j : Z) : bool :=
  flag (ang_of (f_o2j neg o j)) && Nat.eqb (rot_branch (ang_of (f_o2j neg o j))) (kmod4 neg o j).

Definition famP (o : positive) (j : Z) : bool := family_ok false o j && family_ok true o j.
(* conversion hint: unfold these wrappers before andb, so that no float operation is ever evaluated on a variable *)
Strategy expand [family_ok famP].

Lemma forallb_zrange (P : Z -> bool) len lo : forallb P (zrange_from lo len) = true ->
  forall j, lo <= j < lo + Z.of_nat len -> P j = true.
Proof. intros H j Hj. rewrite forallb_forall in H. apply H. now apply In_zrange_from. Qed.

Lemma fam1 : forallb (famP 1) (zrange_from 0 201) = true. Proof. vm_compute. reflexivity. Qed.
Lemma fam3 : forallb (famP 3) (zrange_from 0 201) = true. Proof. vm_compute. reflexivity. Qed.
Lemma fam5 : forallb (famP 5) (zrange_from 0 201) = true. Proof. vm_compute. reflexivity. Qed.
Lemma fam7 : forallb (famP 7) (zrange_from 0 201) = true. Proof. vm_compute. reflexivity. Qed.
Lemma fam9 : forallb (famP 9) (zrange_from 0 201) = true. Proof. vm_compute. reflexivity. Qed.

Lemma famP_true o j : In o [1; 3; 5; 7; 9]%positive -> 0 <= j <= 200 -> famP o j = true.
Proof.
  intros Ho Hj. assert (Hr : 0 <= j < 0 + Z.of_nat 201) by lia.
  cbn [In] in Ho. destruct Ho as [<-|[<-|[<-|[<-|[<-|[]]]]]].
  - exact (forallb_zrange (famP 1) 201 0 fam1 j Hr).
  - exact (forallb_zrange (famP 3) 201 0 fam3 j Hr).
  - exact (forallb_zrange (famP 5) 201 0 fam5 j Hr).
  - exact (forallb_zrange (famP 7) 201 0 fam7 j Hr).
  - exact (forallb_zrange (famP 9) 201 0 fam9 j Hr).
Qed.

Theorem flag_family_large : forall (neg : bool) (o : positive) (j : Z),
  In o [1; 3; 5; 7; 9]%positive -> 0 <= j <= 200 ->
  flag (ang_of (f_o2j neg o j)) = true /\ rot_branch (ang_of (f_o2j neg o j)) = kmod4 neg o j.
Proof.
  intros neg o j Ho Hj. pose proof (famP_true o j Ho Hj) as H. unfold famP in H.
  apply andb_prop in H. destruct H as [H1 H2].
  destruct neg; [clear H1; rename H2 into H0 | clear H2; rename H1 into H0];
    unfold family_ok in H0; apply andb_prop in H0; destruct H0 as [A B];
    apply Nat.eqb_eq in B; (split; [exact A | exact B]).
Qed.

(* the family really is the multiples k*pi/2 of the sweep: for small k both constructions give the same float *)
Example family_matches_sweep :
  forallb (fun p => same_float (ang_of (f_o2j false (fst p) (snd p))) (ang_a (Z.pos (fst p) * 2 ^ (snd p))))
          [(1%positive, 0); (3%positive, 2); (5%positive, 7); (9%positive, 8); (7%positive, 9)] = true.
Proof. vm_compute. reflexivity. Qed.
