(* C12/ProofsAccept.v : what CliffordBackend.execute_circuit accepts and what it then executes.
     acceptance_characterised   the acceptance test as an explicit condition on (class, parameters[0], _clifford):
                                it never looks at the control qubits
     execute_ignores_controls   neither does the execution: a circuit is executed exactly like the circuit of
                                its bare gates (control_qubits erased)
     accepted_gate_cases        every accepted gate falls in exactly one of: simulated by the verified rule of its
                                operator / control qubits dropped / no engine branch (None) / skipped (M, noise) /
                                crash (AttributeError, TypeError)
     accepted_exec_correct      accepted circuit + every gate in the first case (or M): execute = the verified
                                plain execution, whose stabilisers stabilise the exact state vector *)
From Coq Require Import ZArith List Bool Arith Lia PrimFloat.
From QV Require Import Base.Mat Base.Zi C12.ModelFloat C12.ModelTableau C12.ModelExec C12.ModelMeasure
  C12.Pauli C12.ProofsRules C12.ProofsCircuit.
Import ListNotations.

Definition fixed_clifford_class (c : cname) : bool :=
  match c with
  | cH | cX | cY | cZ | cS | cSDG | cSX | cSXDG | cI | cCNOT | cCY | cCZ | cSWAP | ciSWAP | cFSWAP | cECR => true
  | _ => false
  end.
Definition rot_class (c : cname) : bool := match c with cRX | cRY | cRZ | cGPI2 => true | _ => false end.
Definition crot_class (c : cname) : bool := match c with cCRX | cCRY | cCRZ => true | _ => false end.

Theorem acceptance_characterised half g :
  passes_acceptance_at half g = true <->
  fixed_clifford_class (g_cls g) = true
  \/ (rot_class (g_cls g) = true /\ angle_flag g = true)
  \/ (crot_class (g_cls g) = true /\ (if half then angle_flag_half g else angle_flag g) = true)
  \/ (g_cls g = cUnitary /\ g_uflag g = true)
  \/ g_cls g = cM \/ g_cls g = cPauliNoise.
Proof.
  unfold passes_acceptance_at, clifford_at.
  destruct (g_cls g) eqn:E; cbn [fixed_clifford_class rot_class crot_class orb]; rewrite ?orb_false_r, ?orb_true_r;
    split; intros H; try tauto; try discriminate;
    repeat match goal with
           | H : _ \/ _ |- _ => destruct H
           | H : _ /\ _ |- _ => destruct H
           end; try discriminate; try congruence; auto 10.
Qed.

(* erasing the control qubits of a gate record *)
Definition bare (g : gate) : gate := mkGate (g_cls g) (g_args g) [] (g_args g) (g_par g) (g_kw g) (g_uflag g).

Lemma bare_same half g :
  clifford_at half (bare g) = clifford_at half g
  /\ passes_acceptance_at half (bare g) = passes_acceptance_at half g
  /\ apply_gate_clifford (bare g) = apply_gate_clifford g.
Proof. repeat split. Qed.

Lemma accepted_bare half c : accepted_at half (map bare c) = accepted_at half c.
Proof. unfold accepted_at. induction c as [|g c IH]; cbn [map forallb]; auto. now rewrite IH. Qed.

Theorem execute_ignores_controls half n c : execute_circuit_at half n (map bare c) = execute_circuit_at half n c.
Proof.
  unfold execute_circuit_at. rewrite accepted_bare.
  destruct (accepted_at half c); auto.
  generalize (zero_state n). induction c as [|g c IH]; intros T; cbn [map run_gates]; auto.
  change (apply_gate_clifford (bare g)) with (apply_gate_clifford g).
  destruct (apply_gate_clifford g); auto.
Qed.

Lemma aop_has_sop g o : args_cover_qubits g = true -> apply_gate_clifford g = AOp o -> exists s, sop_of_gate g = Some s.
Proof.
  unfold sop_of_gate, apply_gate_clifford, m_CRX, m_CRY, m_CRZ. intros C E. rewrite C. cbn [negb].
  destruct (g_cls g); destruct (g_args g) as [|q [|t [|u l]]]; destruct (g_kw g) as [th|]; try discriminate E;
    try (eexists; reflexivity).
  all: destruct (crot_branch th); [eexists; reflexivity | discriminate E].
Qed.

Theorem accepted_gate_cases half g : passes_acceptance_at half g = true ->
  (exists s, sop_of_gate g = Some s /\ sop_check s = true /\ apply_gate_clifford g = AOp (sop_op s))
  \/ (args_cover_qubits g = false /\ exists o, apply_gate_clifford g = AOp o)
  \/ apply_gate_clifford g = ANone \/ apply_gate_clifford g = ASkip \/ apply_gate_clifford g = ACrash.
Proof.
  intros _. destruct (apply_gate_clifford g) as [o| | |] eqn:E; auto.
  destruct (args_cover_qubits g) eqn:C.
  - left. destruct (aop_has_sop g o C E) as [s Hs]. exists s. destruct (sop_of_gate_ok g s Hs) as [H1 H2].
    rewrite E in H2. auto.
  - right. left. split; auto. now exists o.
Qed.

(* the five cases are mutually exclusive *)
Lemma sop_implies_cover g s : sop_of_gate g = Some s -> args_cover_qubits g = true.
Proof. unfold sop_of_gate. destruct (args_cover_qubits g); auto. discriminate. Qed.

(* accepted circuit whose gates are all simulated by a verified rule (or are measurements): the execution is the
   plain execution of those rules; by clifford_sim_ok its stabilisers stabilise the exact state vector *)
Theorem accepted_exec_correct half n c T :
  execute_circuit_at half n c = Final T ->
  (forall g, In g c -> g_cls g = cM \/ exists s, sop_of_gate g = Some s) ->
  exists l, sops_of c = Some l /\ T = exec (map sop_op l) (zero_state n)
            /\ Forall (fun o => sop_check o = true) l.
Proof.
  intros He Hall.
  assert (Hs : exists l, sops_of c = Some l).
  { clear He. induction c as [|g c IH]; [exists []; reflexivity|].
    destruct IH as [l Hl]; [intros g' Hg'; apply Hall; now right|].
    cbn [sops_of]. destruct (Hall g (or_introl eq_refl)) as [Hm|[s Hs]].
    - rewrite Hm. now exists l.
    - rewrite Hs, Hl. destruct (g_cls g); eexists; reflexivity. }
  destruct Hs as [l Hl]. exists l. split; auto.
  unfold execute_circuit_at in He. destruct (accepted_at half c); [|discriminate].
  destruct (run_gates_sops c l (zero_state n) Hl) as [Hall2 Hrun]. rewrite Hrun in He. injection He as <-.
  split; auto. now apply Forall_forall.
Qed.

(* and the converse direction fails: an accepted gate of the second case is simulated wrongly (ProofsExec.controlled_sim_refuted) *)
Example second_case_example :
  let g := mkGate cZ [2%nat] [0%nat; 1%nat] [2%nat] None None false in
  passes_acceptance_at false g = true /\ args_cover_qubits g = false /\ apply_gate_clifford g = AOp (Op1 m_Z 2).
Proof. repeat split. Qed.
