(* C12/ProofsMeasure2.v : the measurement procedure of the repaired engine.
     M_real_is_spec             the engine's M (rowsum on unpacked bits, sequential scratch row) is the
                                Aaronson-Gottesman procedure, for every tableau, qubit list and draws
     stab_pair_even             two rows that stabilise a non-zero state commute (even exponent)
     determined_spec_stabilises the scratch row of the determined outcome stabilises the state
     determined_support         if the scratch row is (-1)^o Z_q then every amplitude with b_q <> o vanishes
     random_outcome_half        if a stabiliser has x_q = 1 then |psi(b)|^2 = |psi(b xor x)|^2 and b, b xor x
                                differ at q: both outcomes carry the same weight *)
From Coq Require Import ZArith List Bool Arith Lia Ring.
From QV Require Import Base.Mat Base.Zi C12.ModelTableau C12.ModelMeasure C12.Pauli C12.ProofsRules
  C12.ProofsCircuit C12.ProofsMeasure.
Import ListNotations.
Local Open Scope Z_scope.

(* ---------------------------------------------------------------- A. engine = reference *)
Lemma fold_left_ext {A B : Type} (f g : A -> B -> A) (l : list B) :
  (forall a b, f a b = g a b) -> forall a, fold_left f l a = fold_left g l a.
Proof. intros H. induction l as [|x l IH]; intros a; cbn; auto. rewrite H. apply IH. Qed.

Theorem determined_bits_is_spec n T q : determined_bits n T q = determined_spec n T q.
Proof.
  unfold determined_bits, determined_spec, determined_with. apply fold_left_ext.
  intros a i. now rewrite rowsum_bits_is_ag.
Qed.

Lemma mapi_from_ext {A B : Type} (f g : nat -> A -> B) :
  (forall i a, f i a = g i a) -> forall l i, mapi_from f i l = mapi_from g i l.
Proof. intros H. induction l as [|x l IH]; intros i; cbn; auto. now rewrite H, IH. Qed.

Lemma random_outcome_bits n T p q o :
  random_outcome rowsum_bits n T p q o = random_outcome rowsum_ag n T p q o.
Proof.
  unfold random_outcome. f_equal. f_equal. apply mapi_from_ext.
  intros i a. now rewrite rowsum_bits_is_ag.
Qed.

Theorem M_real_is_spec : forall qs n T o, M_real n T qs o = M_spec n T qs o.
Proof.
  unfold M_real, M_spec.
  induction qs as [|q qs IH]; intros n T o; cbn [measure]; auto.
  destruct (first_p n q T) as [i|].
  - destruct o as [|b os]; [reflexivity|]. rewrite random_outcome_bits, IH. reflexivity.
  - now rewrite determined_bits_is_spec, IH.
Qed.

(* ---------------------------------------------------------------- B. stabilisers of a non-zero state commute *)
Lemma phs_zeros_zeros : forall b, phs (zeros (length b)) (zeros (length b)) b = 0.
Proof. unfold zeros. induction b as [|a b IH]; cbn; auto; try (rewrite IH; reflexivity). Qed.

Lemma pact_identity n psi b : length b = n -> pact (zeros n, zeros n, false) psi b = psi b.
Proof.
  intros <-. unfold pact, rx, rz, rr. cbn [fst snd].
  rewrite phs_zeros_zeros, lxor_zeros. cbn. ring.
Qed.

Lemma lxor_self : forall l, lxor l l = zeros (length l).
Proof. unfold zeros. induction l as [|a l IH]; cbn; auto. now rewrite IH, xorb_nilpotent. Qed.

Lemma sum4_g_self : forall x z, length z = length x -> sum4 ag_g x z x z = 0.
Proof.
  induction x as [|a x IH]; intros [|b z] H; cbn in *; auto; try lia.
  rewrite IH by lia. destruct a, b; reflexivity.
Qed.

Lemma pact_involutive n k psi b : row_wf n k -> length b = n -> pact k (pact k psi) b = psi b.
Proof.
  intros Hk Hb. rewrite (rowsum_product n k k psi b Hk Hk Hb).
  destruct k as [[x z] r]. destruct Hk as [Hx Hz]. cbn [fst snd] in Hx, Hz.
  unfold total_ag, rx, rz, rr. cbn [fst snd].
  rewrite sum4_g_self by lia. rewrite !lxor_self. rewrite Hx, Hz.
  rewrite pact_identity by assumption.
  destruct r; cbn; ring.
Qed.

Lemma pact_scale k c psi b : pact k (fun b' => zi_mul c (psi b')) b = zi_mul c (pact k psi b).
Proof. unfold pact. ring. Qed.

Lemma row_wf_product n wh wi :
  row_wf n wh -> row_wf n wi -> row_wf n (lxor (rx wi) (rx wh), lxor (rz wi) (rz wh), false).
Proof.
  destruct wh as [[xh zh] rh], wi as [[xi zi] ri]. unfold row_wf, rx, rz. cbn [fst snd].
  intros [? ?] [? ?]. split; rewrite length_lxor; lia.
Qed.

Lemma stab_pair_square n acc w psi :
  row_wf n acc -> row_wf n w -> stabilises n acc psi -> stabilises n w psi ->
  forall b, length b = n -> psi b = zi_mul (ipow (total_ag acc w + total_ag acc w)) (psi b).
Proof.
  intros Ha Hw Sa Sw.
  set (e := total_ag acc w).
  set (k := (lxor (rx w) (rx acc), lxor (rz w) (rz acc), false)).
  assert (Hk : row_wf n k) by (apply row_wf_product; assumption).
  assert (H1 : forall b, length b = n -> psi b = zi_mul (ipow e) (pact k psi b)).
  { intros b Hb. unfold e, k. rewrite <- (rowsum_product n acc w psi b Ha Hw Hb).
    rewrite (pact_ext n w (pact acc psi) psi Hw Sa b Hb). symmetry. now apply Sw. }
  intros b Hb.
  assert (H2 : pact k psi b = zi_mul (ipow e) (psi b)).
  { rewrite (pact_ext n k psi (fun b' => zi_mul (ipow e) (pact k psi b')) Hk H1 b Hb).
    rewrite pact_scale. now rewrite (pact_involutive n k psi b Hk Hb). }
  rewrite (H1 b Hb) at 1. rewrite H2. rewrite ipow_add. ring.
Qed.

Lemma zi_neg_self (z : Zi) : z = zi_mul zi_m1 z -> z = zi0.
Proof.
  destruct z as [a b]. intros H.
  pose proof (f_equal fst H) as H1. pose proof (f_equal snd H) as H2.
  unfold zi_mul, zi_m1 in H1, H2. cbn [fst snd] in H1, H2. unfold zi0. f_equal; lia.
Qed.

Definition nonzero (n : nat) (psi : amp) : Prop := exists b, length b = n /\ psi b <> zi0.

Theorem stab_pair_even n acc w psi :
  row_wf n acc -> row_wf n w -> stabilises n acc psi -> stabilises n w psi -> nonzero n psi ->
  (total_ag acc w) mod 2 = 0.
Proof.
  intros Ha Hw Sa Sw [b0 [Hb0 Hnz]].
  pose proof (stab_pair_square n acc w psi Ha Hw Sa Sw b0 Hb0) as H.
  set (e := total_ag acc w) in *.
  pose proof (Z.mod_pos_bound e 2 ltac:(lia)) as Hb.
  destruct (Z.eq_dec (e mod 2) 0) as [E|E]; auto.
  exfalso. apply Hnz. apply zi_neg_self.
  replace zi_m1 with (ipow (e + e)); auto.
  unfold ipow.
  pose proof (Z.div_mod e 2 ltac:(lia)) as D.
  replace ((e + e) mod 4) with 2; auto.
  assert (E1 : e mod 2 = 1) by lia.
  rewrite E1 in D.
  replace (e + e) with (2 + (e / 2) * 4) by lia.
  rewrite Z.mod_add by lia. reflexivity.
Qed.

(* the scratch row accumulated by the determined outcome stabilises the state: no commutation
   premise is needed, only that the state is not the zero vector *)
Theorem determined_spec_stabilises n T q psi :
  nonzero n psi ->
  (forall i, (i < n)%nat -> row_wf n (trow T (n + i)) /\ stabilises n (trow T (n + i)) psi) ->
  row_wf n (determined_spec n T q) /\ stabilises n (determined_spec n T q) psi.
Proof.
  intros Hnz Hall. unfold determined_spec, determined_with.
  assert (G : forall l acc, (forall i, In i l -> (i < n)%nat) ->
            row_wf n acc /\ stabilises n acc psi ->
            let r := fold_left (fun acc i => if bit q (rx (trow T i)) then rowsum_ag acc (trow T (n + i)) else acc) l acc in
            row_wf n r /\ stabilises n r psi).
  { induction l as [|i l IH]; intros acc Hl [Hwf Hs]; cbn; auto.
    apply IH; [intros j Hj; apply Hl; now right|].
    destruct (bit q (rx (trow T i))); auto.
    destruct (Hall i (Hl i (or_introl eq_refl))) as [Hw Sw].
    split; [now apply row_wf_rowsum|].
    apply rowsum_stabilises; auto. now apply (stab_pair_even n acc _ psi). }
  apply G.
  - intros i Hi. apply in_seq in Hi. lia.
  - split.
    + split; cbn [fst snd]; apply length_zeros.
    + intros b Hb. now apply pact_identity.
Qed.

(* ---------------------------------------------------------------- C. Born support, one measured qubit *)
Lemma phs_zrow : forall len s i b, length b = len ->
  phs (zeros len) (map (Nat.eqb i) (seq s len)) b
  = 2 * b2z ((s <=? i)%nat && (i <? s + len)%nat && nth (i - s) b false).
Proof.
  unfold zeros.
  induction len as [|len IH]; intros s i [|a b] Hb; cbn [repeat seq map phs length] in *; try lia.
  - rewrite Nat.add_0_r. destruct (s <=? i)%nat eqn:E1; destruct (i <? s)%nat eqn:E2; cbn; auto.
    apply Nat.leb_le in E1. apply Nat.ltb_lt in E2. lia.
  - rewrite IH by lia. unfold loc. cbn [andb b2z].
    destruct (Nat.eqb i s) eqn:E.
    + apply Nat.eqb_eq in E. subst i. rewrite Nat.sub_diag. cbn [nth].
      replace (S s <=? s)%nat with false by (symmetry; apply Nat.leb_gt; lia).
      rewrite Nat.leb_refl. replace (s <? s + S len)%nat with true by (symmetry; apply Nat.ltb_lt; lia).
      rewrite xorb_false_r. cbn [andb b2z]. ring.
    + apply Nat.eqb_neq in E. cbn [andb b2z].
      destruct (s <=? i)%nat eqn:E1.
      * apply Nat.leb_le in E1. assert (S s <= i)%nat by lia.
        replace (S s <=? i)%nat with true by (symmetry; apply Nat.leb_le; lia).
        replace (i <? S s + len)%nat with (i <? s + S len)%nat by (f_equal; lia).
        destruct (i - s)%nat as [|m] eqn:Em; [lia|]. replace (i - S s)%nat with m by lia. cbn [nth]. ring.
      * apply Nat.leb_gt in E1. replace (S s <=? i)%nat with false by (symmetry; apply Nat.leb_gt; lia).
        cbn. ring.
Qed.

Lemma pact_zrow n q o psi b : (q < n)%nat -> length b = n ->
  pact (zeros n, unit_vec n q, o) psi b = zi_mul (ipow (2 * b2z o + 2 * b2z (bit q b))) (psi b).
Proof.
  intros Hq Hb. unfold pact, rx, rz, rr, unit_vec. cbn [fst snd].
  rewrite phs_zrow by assumption. subst n. rewrite lxor_zeros.
  replace (0 <=? q)%nat with true by reflexivity.
  replace (q <? 0 + length b)%nat with true by (symmetry; apply Nat.ltb_lt; lia).
  rewrite Nat.sub_0_r. reflexivity.
Qed.

(* determined outcome o (the scratch row is (-1)^o Z_q and stabilises psi): every basis state whose
   q-th bit differs from o has amplitude zero, i.e. the outcome 1-o has Born probability 0 and o has
   probability 1 *)
Theorem determined_support n q o psi :
  (q < n)%nat -> stabilises n (zeros n, unit_vec n q, o) psi ->
  forall b, length b = n -> bit q b <> o -> psi b = zi0.
Proof.
  intros Hq Hs b Hb Hne. apply zi_neg_self.
  rewrite <- (Hs b Hb) at 1. rewrite pact_zrow by assumption.
  destruct o, (bit q b); try congruence; reflexivity.
Qed.

Lemma zi_norm2_mul a b : zi_norm2 (zi_mul a b) = zi_norm2 a * zi_norm2 b.
Proof. destruct a, b. unfold zi_norm2, zi_mul. cbn [fst snd]. ring. Qed.

Lemma zi_norm2_ipow k : zi_norm2 (ipow k) = 1.
Proof.
  unfold ipow. pose proof (Z.mod_pos_bound k 4 ltac:(lia)) as H. set (u := k mod 4) in *.
  assert (Hu : u = 0 \/ u = 1 \/ u = 2 \/ u = 3) by lia.
  destruct Hu as [-> | [-> | [-> | ->]]]; reflexivity.
Qed.

(* random outcome (a stabiliser w has x_q = 1): b and b xor x(w) differ at q and carry the same weight,
   so the two outcomes of qubit q have equal Born probability (1/2 each for a non-zero state) *)
Theorem random_outcome_half n q w psi :
  (q < n)%nat -> row_wf n w -> stabilises n w psi -> bit q (rx w) = true ->
  forall b, length b = n ->
    zi_norm2 (psi b) = zi_norm2 (psi (lxor b (rx w))) /\ bit q (lxor b (rx w)) = negb (bit q b)
    /\ length (lxor b (rx w)) = n.
Proof.
  intros Hq [Hx Hz] Hs Hbit b Hb. unfold rx in *.
  split; [|split].
  - rewrite <- (Hs b Hb) at 1. unfold pact, rx. rewrite zi_norm2_mul, zi_norm2_ipow. ring.
  - rewrite bit_lxor by lia. rewrite Hbit. now rewrite xorb_true_r.
  - rewrite length_lxor; lia.
Qed.
