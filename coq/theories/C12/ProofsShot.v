(* C12/ProofsShot.v : repeated execution with collapsing measurements.
     measure_Good    after M the tableau's stabilisers stabilise the state projected on the recorded outcomes,
                     which is not the zero vector (joint Born probability of the outcomes > 0); the sample has one
                     column per qubit handed to M, in that order
     shot_Good       the same through a whole shot: gates, collapsing measurements, gates, ...
     run_shot_support  every shot of an accepted circuit of plain library gates: the mid-circuit outcomes and the final
                     sample together have non-zero Born probability in the exact state-vector semantics *)
From Coq Require Import ZArith List Bool Arith Lia.
From QV Require Import Base.Mat Base.Zi C12.ModelFloat C12.ModelTableau C12.ModelExec C12.ModelMeasure C12.ModelShot C12.Pauli
  C12.ProofsRules C12.ProofsCircuit C12.ProofsMeasure C12.ProofsMeasure2 C12.ProofsMeasure3 C12.ProofsBorn C12.ProofsNonzero.
Import ListNotations.

Fixpoint projs (qs : list nat) (s : list bool) (psi : amp) : amp :=
  match qs, s with
  | q :: qs', v :: s' => projs qs' s' (proj q v psi)
  | _, _ => psi
  end.

Theorem measure_Good : forall qs n T o s T' psi,
  Good n T psi -> Forall (fun q => (q < n)%nat) qs -> M_spec n T qs o = Some (s, T') ->
  Good n T' (projs qs s psi) /\ length s = length qs.
Proof.
  unfold M_spec.
  induction qs as [|q qs IH]; intros n T o s T' psi HG Hq H; cbn [measure] in H.
  - injection H as <- <-. cbn. auto.
  - inversion Hq as [|? ? Hq1 Hq2]; subst.
    destruct (first_p n q T) as [i|] eqn:Ep.
    + destruct o as [|v os]; [discriminate|].
      destruct (measure rowsum_ag determined_spec n (random_outcome rowsum_ag n T (n + i) q v) qs os)
        as [[s1 T1]|] eqn:Em; [|discriminate].
      injection H as <- <-.
      unfold first_p in Ep. apply find_from_spec in Ep. destruct Ep as [Hi Hb].
      assert (HG1 : Good n (random_outcome rowsum_ag n T (n + i) q v) (proj q v psi))
        by (apply Good_random; auto; lia).
      destruct (IH n _ os s1 T1 _ HG1 Hq2 Em) as [G L]. cbn [projs length]. auto.
    + set (w := determined_spec n T q) in *.
      destruct (measure rowsum_ag determined_spec n (upd (2 * n) w T) qs o) as [[s1 T1]|] eqn:Em; [|discriminate].
      injection H as <- <-.
      destruct (Good_determined n T psi q HG Hq1 Ep) as [HG1 _]. fold w in HG1.
      destruct (IH n _ o s1 T1 _ HG1 Hq2 Em) as [G L]. cbn [projs length]. auto.
Qed.

(* one column per qubit handed to M, whatever the phase rule, the order or repetitions in the qubit list *)
Theorem measure_length rs det : forall qs n T o s T', measure rs det n T qs o = Some (s, T') -> length s = length qs.
Proof.
  induction qs as [|q qs IH]; intros n T o s T' H; cbn [measure] in H.
  - now injection H as <- _.
  - destruct (first_p n q T).
    + destruct o as [|v os]; [discriminate|].
      destruct (measure rs det n (random_outcome rs n T (n + n0) q v) qs os) as [[s1 T1]|] eqn:E; [|discriminate].
      injection H as <- _. cbn. f_equal. exact (IH n _ os s1 T1 E).
    + destruct (measure rs det n (upd (2 * n) (det n T q) T) qs o) as [[s1 T1]|] eqn:E; [|discriminate].
      injection H as <- _. cbn. f_equal. exact (IH n _ o s1 T1 E).
Qed.

(* the state on which every recorded outcome has been projected is non-zero only on basis states that agree with the sample *)
Lemma projs_agrees : forall qs s psi b, length s = length qs -> projs qs s psi b <> zi0 -> psi b <> zi0 /\ agrees b qs s.
Proof.
  induction qs as [|q qs IH]; intros [|v s] psi b Hl H; cbn in *; try discriminate; auto.
  destruct (IH s (proj q v psi) b ltac:(lia) H) as [Hp Ha]. unfold proj in Hp.
  destruct (Bool.eqb (bit q b) v) eqn:E; [|congruence]. apply eqb_prop in E. auto.
Qed.

(* ---------------------------------------------------------------- a shot over verified operations *)
Inductive sstep :=
| SGate (o : sop)
| SCollapse (qs : list nat) (draws : list bool).

Fixpoint run_ssteps (n : nat) (prog : list sstep) (T : tableau) : option (list (list bool) * tableau) :=
  match prog with
  | [] => Some ([], T)
  | SGate o :: prog' => run_ssteps n prog' (tab_op (sop_op o) T)
  | SCollapse qs draws :: prog' =>
      match M_real n T qs draws with
      | Some (s, T1) =>
          match run_ssteps n prog' T1 with
          | Some (outs, T2) => Some (s :: outs, T2)
          | None => None
          end
      | None => None
      end
  end.

(* the exact (unnormalised) state after the shot: gates applied, recorded outcomes projected *)
Fixpoint spec_state (prog : list sstep) (outs : list (list bool)) (psi : amp) : amp :=
  match prog with
  | [] => psi
  | SGate o :: prog' => spec_state prog' outs (sop_app o psi)
  | SCollapse qs _ :: prog' =>
      match outs with
      | s :: outs' => spec_state prog' outs' (projs qs s psi)
      | [] => psi
      end
  end.

Definition sstep_ok (n : nat) (st : sstep) : Prop :=
  match st with
  | SGate o => sop_check o = true /\ sop_valid n o /\ op_symp (sop_op o) = true /\ sop_unit o = true
  | SCollapse qs _ => Forall (fun q => (q < n)%nat) qs
  end.

Lemma Good_gate n T psi o :
  Good n T psi -> sop_check o = true -> sop_valid n o -> op_symp (sop_op o) = true -> sop_unit o = true ->
  Good n (tab_op (sop_op o) T) (sop_app o psi).
Proof.
  intros [HI [Hnz Hst]] Hc Hv Hs Hu. pose proof HI as [HL [Hwf _]].
  split; [now apply Inv_tab_op|]. split; [now apply nonzero_sop|].
  intros i Hi. unfold tab_op. rewrite trow_map by lia.
  apply (stab_step n o (trow T (n + i)) psi); auto. apply Hwf. lia.
Qed.

Theorem shot_Good : forall prog n T psi outs T',
  Forall (sstep_ok n) prog -> Good n T psi -> run_ssteps n prog T = Some (outs, T') ->
  Good n T' (spec_state prog outs psi).
Proof.
  induction prog as [|st prog IH]; intros n T psi outs T' Hok HG H; cbn [run_ssteps] in H.
  - injection H as <- <-. exact HG.
  - inversion Hok as [|? ? H1 H2]; subst. destruct st as [o | qs draws]; cbn [sstep_ok] in H1.
    + destruct H1 as [Hc [Hv [Hs Hu]]]. cbn [spec_state].
      apply (IH n (tab_op (sop_op o) T) (sop_app o psi) outs T' H2); auto. now apply Good_gate.
    + destruct (M_real n T qs draws) as [[s T1]|] eqn:EM; [|discriminate].
      destruct (run_ssteps n prog T1) as [[outs1 T2]|] eqn:ER; [|discriminate].
      injection H as <- <-. cbn [spec_state].
      rewrite M_real_is_spec in EM. destruct (measure_Good qs n T draws s T1 psi HG H1 EM) as [G1 _].
      now apply (IH n T1 _ outs1 T2 H2).
Qed.

Lemma Good_zero_state n : Good n (zero_state n) psi0.
Proof.
  split; [apply Inv_zero_state|]. split; [apply nonzero_psi0|].
  intros i Hi. rewrite trow_zero_state by lia.
  replace (n + i <? n)%nat with false by (symmetry; apply Nat.ltb_ge; lia).
  apply z_row_stabilises_psi0.
Qed.

(* whole shot + final sampling: the mid-circuit outcomes and the final sample have non-zero joint Born probability:
   some basis state agrees with the final sample and has non-zero amplitude in the state projected on the mid outcomes *)
Theorem shot_support n prog outs T' fq fd s T'' :
  Forall (sstep_ok n) prog -> Forall (fun q => (q < n)%nat) fq ->
  run_ssteps n prog (zero_state n) = Some (outs, T') -> M_real n T' fq fd = Some (s, T'') ->
  exists b, length b = n /\ spec_state prog outs psi0 b <> zi0 /\ agrees b fq s.
Proof.
  intros Hok Hq Hr HM.
  pose proof (shot_Good prog n _ psi0 outs T' Hok (Good_zero_state n) Hr) as HG.
  now apply (born_support_engine fq n T' fd s T'').
Qed.

(* ---------------------------------------------------------------- gate records *)
Fixpoint ssteps_of (prog : list step) : option (list sstep) :=
  match prog with
  | [] => Some []
  | PGate g :: prog' =>
      match g_cls g with
      | cM => ssteps_of prog'
      | _ => match sop_of_gate g, ssteps_of prog' with
             | Some s, Some l => Some (SGate s :: l)
             | _, _ => None
             end
      end
  | PCollapse qs d :: prog' =>
      match ssteps_of prog' with Some l => Some (SCollapse qs d :: l) | None => None end
  end.

Lemma run_steps_ssteps n : forall prog sp T, ssteps_of prog = Some sp -> run_steps n prog T = run_ssteps n sp T.
Proof.
  induction prog as [|st prog IH]; intros sp T H; cbn [ssteps_of] in H.
  - injection H as <-. reflexivity.
  - destruct st as [g | qs d].
    + destruct (g_cls g) eqn:Ec;
        try (destruct (sop_of_gate g) as [s|] eqn:Es; [|discriminate];
             destruct (ssteps_of prog) as [l|] eqn:El; [|discriminate];
             injection H as <-; cbn [run_steps run_ssteps];
             destruct (sop_of_gate_ok g s Es) as [_ Hap]; rewrite Hap; now apply IH).
      cbn [run_steps]. unfold apply_gate_clifford. rewrite Ec. now apply IH.
    + destruct (ssteps_of prog) as [l|] eqn:El; [|discriminate]. injection H as <-.
      cbn [run_steps run_ssteps]. destruct (M_real n T qs d) as [[s T1]|]; auto. now rewrite (IH l T1 eq_refl).
Qed.

Lemma ssteps_of_ok n : forall prog sp, ssteps_of prog = Some sp ->
  (forall o, In (SGate o) sp -> sop_valid n o) ->
  (forall qs d, In (PCollapse qs d) prog -> Forall (fun q => (q < n)%nat) qs) ->
  Forall (sstep_ok n) sp.
Proof.
  induction prog as [|st prog IH]; intros sp H Hv Hq; cbn [ssteps_of] in H.
  - injection H as <-. constructor.
  - destruct st as [g | qs d].
    + destruct (g_cls g) eqn:Ec;
        try (destruct (sop_of_gate g) as [s|] eqn:Es; [|discriminate];
             destruct (ssteps_of prog) as [l|] eqn:El; [|discriminate];
             injection H as <-; constructor;
             [ cbn [sstep_ok]; destruct (sop_of_gate_ok g s Es) as [Hck _];
               repeat split; auto; [apply Hv; now left | now apply (sop_of_gate_symp g) | now apply (sop_of_gate_unit g)]
             | apply IH; auto; [intros o Ho; apply Hv; now right | intros qs d Hin; apply (Hq qs d); now right] ]).
      apply IH; auto. intros qs d Hin. apply (Hq qs d). now right.
    + destruct (ssteps_of prog) as [l|] eqn:El; [|discriminate]. injection H as <-. constructor.
      * cbn [sstep_ok]. apply (Hq qs d). now left.
      * apply IH; auto; [intros o Ho; apply Hv; now right | intros qs' d' Hin; apply (Hq qs' d'); now right].
Qed.

Theorem run_shot_support half n prog sp fq fd outs s :
  ssteps_of prog = Some sp ->
  (forall o, In (SGate o) sp -> sop_valid n o) ->
  (forall qs d, In (PCollapse qs d) prog -> Forall (fun q => (q < n)%nat) qs) ->
  Forall (fun q => (q < n)%nat) fq ->
  run_shot half n prog fq fd = Some (outs, s) ->
  exists b, length b = n /\ spec_state sp outs psi0 b <> zi0 /\ agrees b fq s.
Proof.
  intros Hs Hv Hq Hfq H. unfold run_shot in H.
  destruct (accepted_at half (flat_map step_gate prog)); [|discriminate].
  rewrite (run_steps_ssteps n prog sp _ Hs) in H.
  destruct (run_ssteps n sp (zero_state n)) as [[outs1 T1]|] eqn:ER; [|discriminate].
  destruct (M_real n T1 fq fd) as [[s1 T2]|] eqn:EM; [|discriminate].
  injection H as <- <-.
  apply (shot_support n sp outs1 T1 fq fd s1 T2); auto. now apply (ssteps_of_ok n prog).
Qed.
