(* C12/ModelExec.v : executable model of
     - the `.clifford` flag of the gate classes (gates/gates.py) and of `controlled_by`,
     - the acceptance test of CliffordBackend.execute_circuit,
     - CliffordBackend.apply_gate_clifford:  getattr(engine, class name)(state, *gate.init_args,
       nqubits, theta=init_kwargs["theta"] if present)   -- control qubits that are not part of
       init_args never reach the engine,
     - the gate loop of execute_circuit (return values of apply_clifford are ignored: the engine
       updates the packed state in place; a `None` return leaves the state as it is).
   The harness extracts (class name, init_args, control/target qubits, parameters[0],
   init_kwargs["theta"]) from real gate objects and compares flag / acceptance / final tableau. *)
From Coq Require Import List Bool Arith ZArith PrimFloat.
From QV Require Import C12.ModelFloat C12.ModelTableau.
Import ListNotations.

Inductive cname :=
| cH | cX | cY | cZ | cS | cSDG | cSX | cSXDG | cI
| cRX | cRY | cRZ | cGPI2
| cCNOT | cCY | cCZ | cCRX | cCRY | cCRZ | cSWAP | ciSWAP | cFSWAP | cECR
| cM            (* measurement *)
| cPauliNoise   (* PauliNoiseChannel: accepted, sampled at run time; outside the model *)
| cUnitary      (* flag is the settable attribute _clifford *)
| cOther.       (* every other class: Gate.clifford default False (T, TOFFOLI, U3, CCZ, ...) *)

Record gate := mkGate {
  g_cls : cname;
  g_args : list nat;          (* gate.init_args *)
  g_ctrl : list nat;          (* gate.control_qubits *)
  g_targ : list nat;          (* gate.target_qubits *)
  g_par : option pyval;       (* gate.parameters[0] if the gate is parametrised *)
  g_kw : option float;        (* gate.init_kwargs["theta"] if present (ints converted exactly) *)
  g_uflag : bool              (* Unitary._clifford *)
}.

Definition qubits (g : gate) : list nat := g_ctrl g ++ g_targ g.

Definition angle_flag (g : gate) : bool :=
  match g_par g with Some a => is_clifford_given_angle a | None => false end.
Definition angle_flag_half (g : gate) : bool :=
  match g_par g with Some a => is_clifford_given_half_angle a | None => false end.

(* gate.clifford.  `half` selects the flag of the controlled rotations:
     false : _CRn_.clifford tests theta with the pi/2 test of RX/RY/RZ   (the code as it is)
     true  : _CRn_.clifford tests theta / 2 (multiples of pi): a repair that was tried and withdrawn,
             because tests/test_gates_gates.py::test_cun pins `clifford == (theta % (pi/2)).is_integer()`
   the harness probes the tree (CRX(0,1,pi/2).clifford) and uses the matching variant *)
Definition clifford_at (half : bool) (g : gate) : bool :=
  match g_cls g with
  | cH | cX | cY | cZ | cS | cSDG | cSX | cSXDG | cI
  | cCNOT | cCY | cCZ | cSWAP | ciSWAP | cFSWAP | cECR => true
  | cRX | cRY | cRZ | cGPI2 => angle_flag g
  | cCRX | cCRY | cCRZ => if half then angle_flag_half g else angle_flag g
  | cUnitary => g_uflag g
  | cM | cPauliNoise | cOther => false
  end.
Definition clifford := clifford_at false.
Definition clifford_half := clifford_at true.

(* gate.controlled_by( *qs ) for a gate that is not yet controlled; None = RuntimeError *)
Definition generic_controlled (g : gate) (qs : list nat) : gate :=
  match qs with
  | [] => g
  | _ => mkGate (g_cls g) (g_args g) qs (g_targ g) (g_par g) (g_kw g) (g_uflag g)
  end.
Definition two_qubit (c : cname) (q t : nat) (g : gate) : gate :=
  mkGate c [q; t] [q] [t] (g_par g) (g_kw g) false.
Definition controlled_by (g : gate) (qs : list nat) : option gate :=
  match g_ctrl g with
  | _ :: _ => None
  | [] =>
    if existsb (fun q => existsb (Nat.eqb q) (g_targ g)) qs then None else
    match g_cls g, qs, g_targ g with
    | cX, [q], [t] => Some (two_qubit cCNOT q t g)
    | cX, [q0; q1], [t] => Some (mkGate cOther [] [q0; q1] [t] None None false)   (* TOFFOLI; init_args of classes outside the library are not recorded *)
    | cY, [q], [t] => Some (two_qubit cCY q t g)
    | cZ, [q], [t] => Some (two_qubit cCZ q t g)
    | cRX, [q], [t] => Some (two_qubit cCRX q t g)
    | cRY, [q], [t] => Some (two_qubit cCRY q t g)
    | cRZ, [q], [t] => Some (two_qubit cCRZ q t g)
    | _, _, _ => Some (generic_controlled g qs)
    end
  end.

(* the acceptance test of execute_circuit *)
Definition passes_acceptance_at (half : bool) (g : gate) : bool :=
  clifford_at half g || match g_cls g with cM | cPauliNoise => true | _ => false end.
Definition accepted_at (half : bool) (c : list gate) : bool := forallb (passes_acceptance_at half) c.
Definition accepted := accepted_at false.

(* engine rules with angle dispatch *)
Definition m_RX (theta : float) : loc1 := m_RX_branch (rot_branch theta).
Definition m_RY (theta : float) : loc1 := m_RY_branch (rot_branch theta).
Definition m_RZ (theta : float) : loc1 := m_RZ_branch (rot_branch theta).
Definition m_CRX (theta : float) : option loc2 := option_map m_CRX_branch (crot_branch theta).
Definition m_CRZ (theta : float) : option loc2 := option_map m_CRZ_branch (crot_branch theta).
Definition m_CRY (theta : float) : option loc2 := option_map m_CRY_branch (crot_branch theta).

Inductive applied :=
| AOp (o : op)      (* the engine function updates the state by this rule *)
| ANone             (* the engine function returns None without touching the state *)
| ASkip             (* M without collapse: state unchanged; PauliNoise: outside the model *)
| ACrash.           (* AttributeError (no engine function) / TypeError (arity) *)

Definition apply_gate_clifford (g : gate) : applied :=
  match g_cls g, g_args g, g_kw g with
  | cI, [q], None => AOp (Op1 m_I q)
  | cH, [q], None => AOp (Op1 m_H q)
  | cX, [q], None => AOp (Op1 m_X q)
  | cY, [q], None => AOp (Op1 m_Y q)
  | cZ, [q], None => AOp (Op1 m_Z q)
  | cS, [q], None => AOp (Op1 m_S q)
  | cSDG, [q], None => AOp (Op1 m_SDG q)
  | cSX, [q], None => AOp (Op1 m_SX q)
  | cSXDG, [q], None => AOp (Op1 m_SXDG q)
  | cRX, [q], Some th => AOp (Op1 (m_RX th) q)
  | cRY, [q], Some th => AOp (Op1 (m_RY th) q)
  | cRZ, [q], Some th => AOp (Op1 (m_RZ th) q)
  | cCNOT, [c; t], None => AOp (Op2 m_CNOT c t)
  | cCY, [c; t], None => AOp (Op2 m_CY c t)
  | cCZ, [c; t], None => AOp (Op2 m_CZ c t)
  | cSWAP, [c; t], None => AOp (Op2 m_SWAP c t)
  | ciSWAP, [c; t], None => AOp (Op2 m_iSWAP c t)
  | cFSWAP, [c; t], None => AOp (Op2 m_FSWAP c t)
  | cECR, [c; t], None => AOp (Op2 m_ECR c t)
  | cCRX, [c; t], Some th => match m_CRX th with Some f => AOp (Op2 f c t) | None => ANone end
  | cCRY, [c; t], Some th => match m_CRY th with Some f => AOp (Op2 f c t) | None => ANone end
  | cCRZ, [c; t], Some th => match m_CRZ th with Some f => AOp (Op2 f c t) | None => ANone end
  | cM, _, _ => ASkip
  | cPauliNoise, _, _ => ASkip
  | _, _, _ => ACrash
  end.

Inductive outcome :=
| Rejected                     (* RuntimeError("Circuit contains non-Clifford gates.") *)
| Crashed                      (* accepted, then AttributeError / TypeError inside the gate loop *)
| Final (T : tableau).

Fixpoint run_gates (gs : list gate) (T : tableau) : outcome :=
  match gs with
  | [] => Final T
  | g :: gs' =>
      match apply_gate_clifford g with
      | AOp o => run_gates gs' (tab_op o T)
      | ANone | ASkip => run_gates gs' T
      | ACrash => Crashed
      end
  end.

Definition execute_circuit_at (half : bool) (n : nat) (c : list gate) : outcome :=
  if accepted_at half c then run_gates c (zero_state n) else Rejected.
Definition execute_circuit := execute_circuit_at false.

(* every qubit the gate acts on is handed to the engine (what a sound acceptance needs) *)
Definition args_cover_qubits (g : gate) : bool :=
  forallb (fun q => existsb (Nat.eqb q) (g_args g)) (qubits g).

(* structural equality of gate records, for the correspondence of controlled_by *)
Definition cname_tag (c : cname) : nat :=
  match c with
  | cH => 0 | cX => 1 | cY => 2 | cZ => 3 | cS => 4 | cSDG => 5 | cSX => 6 | cSXDG => 7 | cI => 8
  | cRX => 9 | cRY => 10 | cRZ => 11 | cGPI2 => 12
  | cCNOT => 13 | cCY => 14 | cCZ => 15 | cCRX => 16 | cCRY => 17 | cCRZ => 18
  | cSWAP => 19 | ciSWAP => 20 | cFSWAP => 21 | cECR => 22
  | cM => 23 | cPauliNoise => 24 | cUnitary => 25 | cOther => 26
  end.
Fixpoint nats_eqb (a b : list nat) : bool :=
  match a, b with
  | [], [] => true
  | x :: a', y :: b' => Nat.eqb x y && nats_eqb a' b'
  | _, _ => false
  end.
Definition pyval_eqb (a b : pyval) : bool :=
  match a, b with
  | PFloat x, PFloat y => same_float x y
  | PInt x, PInt y => Z.eqb x y
  | POther, POther => true
  | _, _ => false
  end.
Definition opt_eqb {A : Type} (e : A -> A -> bool) (a b : option A) : bool :=
  match a, b with
  | Some x, Some y => e x y
  | None, None => true
  | _, _ => false
  end.
Definition gate_eqb (a b : gate) : bool :=
  Nat.eqb (cname_tag (g_cls a)) (cname_tag (g_cls b))
  && nats_eqb (g_args a) (g_args b) && nats_eqb (g_ctrl a) (g_ctrl b) && nats_eqb (g_targ a) (g_targ b)
  && opt_eqb pyval_eqb (g_par a) (g_par b) && opt_eqb same_float (g_kw a) (g_kw b)
  && Bool.eqb (g_uflag a) (g_uflag b).

Definition outcome_is (o : outcome) (expected : list (list bool)) : bool :=
  match o with Final T => llbeq (tab_bits T) expected | _ => false end.
Definition is_rejected (o : outcome) : bool := match o with Rejected => true | _ => false end.
Definition is_crashed (o : outcome) : bool := match o with Crashed => true | _ => false end.
