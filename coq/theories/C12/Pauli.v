(* C12/Pauli.v : what a tableau row and a gate MEAN, as operators on amplitude functions.
   An n-qubit state is an amplitude function  list bool -> Zi  (basis index as a bit list,
   head = qubit 0 = most significant bit, exactly qibo's convention); only indices of length n
   matter and every statement is pointwise on those, so no functional extensionality is needed.
     pact w psi        the Pauli operator encoded by the row w = (xs, zs, r) applied to psi:
                          (-1)^r (x)_j i^{x_j z_j} X^{x_j} Z^{z_j}      (Aaronson-Gottesman encoding;
                          the same operator CliffordBackend.symplectic_matrix_to_generators builds)
     app1 U q psi      the 2x2 matrix U on qubit q       (out(b) = sum_c U[b_q][c] psi(b[q:=c]))
     app2 U c t psi    the 4x4 matrix U on qubits (c, t) (first matrix index bit = qubit c)
     capp cs U t psi   U on qubit t where all control qubits cs are 1, identity elsewhere
   Gate matrices are Gaussian-integer multiples of qibo's documented matrices (H, ECR, RX(pi/2),...
   scaled by sqrt 2, SX by 2): the statements U P = P' U are homogeneous in U, so no division is
   needed.  Executable; the statements proved about these definitions are in ProofsRules.v. *)
From Coq Require Import ZArith List Bool Arith.
From QV Require Import Base.Mat Base.Zi C12.ModelTableau C12.ModelMeasure.
Import ListNotations.
Local Open Scope Z_scope.

Definition amp := list bool -> Zi.

Definition zi_m1 : Zi := (-1, 0).
Definition zi_mi : Zi := (0, -1).
Definition ipow (k : Z) : Zi :=
  match k mod 4 with 0 => zi1 | 1 => zii | 2 => zi_m1 | _ => zi_mi end.

(* sigma(x,z) = i^{xz} X^x Z^z  (I, X, Z, Y);  (sigma psi)(a) = i^{loc x z a} psi(a xor x) *)
Definition loc (x z a : bool) : Z := b2z (x && z) + 2 * b2z (z && xorb a x).
Fixpoint phs (xs zs b : list bool) : Z :=
  match xs, zs, b with
  | x :: xs', z :: zs', a :: b' => loc x z a + phs xs' zs' b'
  | _, _, _ => 0
  end.
Definition pact (w : row) (psi : amp) : amp :=
  fun b => zi_mul (ipow (2 * b2z (rr w) + phs (rx w) (rz w) b)) (psi (lxor b (rx w))).

(* ---- gates as operators *)
Definition m1 := bool -> bool -> Zi.                   (* U a c : row a, column c *)
Definition m2 := bool -> bool -> bool -> bool -> Zi.   (* U a1 a2 c1 c2 : row (a1 a2), column (c1 c2) *)

Definition app1 (U : m1) (q : nat) (psi : amp) : amp := fun b =>
  zi_add (zi_mul (U (bit q b) false) (psi (upd q false b)))
         (zi_mul (U (bit q b) true) (psi (upd q true b))).

Definition app2 (U : m2) (c t : nat) (psi : amp) : amp := fun b =>
  let a1 := bit c b in let a2 := bit t b in
  zi_add (zi_add (zi_mul (U a1 a2 false false) (psi (upd t false (upd c false b))))
                 (zi_mul (U a1 a2 false true) (psi (upd t true (upd c false b)))))
         (zi_add (zi_mul (U a1 a2 true false) (psi (upd t false (upd c true b))))
                 (zi_mul (U a1 a2 true true) (psi (upd t true (upd c true b))))).

(* controlled single-qubit gate: U on t where every control is 1 *)
Definition capp (cs : list nat) (U : m1) (t : nat) (psi : amp) : amp := fun b =>
  if forallb (fun c => bit c b) cs then app1 U t psi b else psi b.

(* list-of-rows matrices (Base/Mat, Base/Zi) as m1 / m2 *)
Definition b2n (b : bool) : nat := if b then 1%nat else 0%nat.
Definition of_mat1 (M : mat Zi) : m1 := fun a c => mget Ziops M (b2n a) (b2n c).
Definition of_mat2 (M : mat Zi) : m2 := fun a1 a2 c1 c2 =>
  mget Ziops M (2 * b2n a1 + b2n a2)%nat (2 * b2n c1 + b2n c2)%nat.

Definition O : Zi := zi0.
Definition I1 : Zi := zi1.
Definition Ii : Zi := zii.
Definition N1 : Zi := zi_m1.
Definition Ni : Zi := zi_mi.

(* ---- the gate matrices (scale factor in the comment; entries of qibo's matrix times the factor) *)
Definition M_I : mat Zi := [[I1; O]; [O; I1]].
Definition M_H : mat Zi := [[I1; I1]; [I1; N1]].                                   (* sqrt2 *)
Definition M_X : mat Zi := [[O; I1]; [I1; O]].
Definition M_Y : mat Zi := [[O; Ni]; [Ii; O]].
Definition M_Z : mat Zi := [[I1; O]; [O; N1]].
Definition M_S : mat Zi := [[I1; O]; [O; Ii]].
Definition M_SDG : mat Zi := [[I1; O]; [O; Ni]].
Definition M_SX : mat Zi := [[(1, 1); (1, -1)]; [(1, -1); (1, 1)]].                 (* 2 *)
Definition M_SXDG : mat Zi := [[(1, -1); (1, 1)]; [(1, 1); (1, -1)]].               (* 2 *)
(* rotations at j*pi/2, j = 0..3 (RX(theta + 2 pi) = - RX(theta): same conjugation action) *)
Definition M_RX (j : nat) : mat Zi :=
  match j with
  | 0%nat => M_I
  | 1%nat => [[I1; Ni]; [Ni; I1]]                                                    (* sqrt2 *)
  | 2%nat => [[O; Ni]; [Ni; O]]
  | _ => [[N1; Ni]; [Ni; N1]]                                                        (* sqrt2 *)
  end.
Definition M_RY (j : nat) : mat Zi :=
  match j with
  | 0%nat => M_I
  | 1%nat => [[I1; N1]; [I1; I1]]                                                    (* sqrt2 *)
  | 2%nat => [[O; N1]; [I1; O]]
  | _ => [[N1; N1]; [I1; N1]]                                                        (* sqrt2 *)
  end.
Definition M_RZ (j : nat) : mat Zi :=
  match j with
  | 0%nat => M_I
  | 1%nat => [[(1, -1); O]; [O; (1, 1)]]                                             (* sqrt2 *)
  | 2%nat => [[Ni; O]; [O; Ii]]
  | _ => [[(-1, -1); O]; [O; (-1, 1)]]                                               (* sqrt2 *)
  end.

Definition M_CNOT : mat Zi := [[I1; O; O; O]; [O; I1; O; O]; [O; O; O; I1]; [O; O; I1; O]].
Definition M_CY : mat Zi := [[I1; O; O; O]; [O; I1; O; O]; [O; O; O; Ni]; [O; O; Ii; O]].
Definition M_CZ : mat Zi := [[I1; O; O; O]; [O; I1; O; O]; [O; O; I1; O]; [O; O; O; N1]].
Definition M_SWAP : mat Zi := [[I1; O; O; O]; [O; O; I1; O]; [O; I1; O; O]; [O; O; O; I1]].
Definition M_iSWAP : mat Zi := [[I1; O; O; O]; [O; O; Ii; O]; [O; Ii; O; O]; [O; O; O; I1]].
Definition M_FSWAP : mat Zi := [[I1; O; O; O]; [O; O; I1; O]; [O; I1; O; O]; [O; O; O; N1]].
Definition M_ECR : mat Zi := [[O; O; I1; Ii]; [O; O; Ii; I1]; [I1; Ni; O; O]; [Ni; I1; O; O]].   (* sqrt2 *)
(* block-diagonal control of a 2x2 matrix, scaled: diag(s, s, U) *)
Definition ctrl_mat (s : Zi) (U : mat Zi) : mat Zi :=
  [[s; O; O; O]; [O; s; O; O];
   [O; O; mget Ziops U 0 0; mget Ziops U 0 1]; [O; O; mget Ziops U 1 0; mget Ziops U 1 1]].
(* controlled rotations at j*pi, j = 0..3:  CRn(j pi) = diag(1, 1, Rn(j pi)),  Rn(j pi) = M_Rn (2j mod 4) up to
   the sign (-1)^{j >= 2}, which now matters (it is a relative phase between the blocks) *)
Definition M_CRX (j : nat) : mat Zi :=
  match j with
  | 0%nat => ctrl_mat I1 M_I
  | 1%nat => ctrl_mat I1 (M_RX 2)
  | 2%nat => ctrl_mat I1 [[N1; O]; [O; N1]]
  | _ => ctrl_mat I1 [[O; Ii]; [Ii; O]]
  end.
Definition M_CRY (j : nat) : mat Zi :=
  match j with
  | 0%nat => ctrl_mat I1 M_I
  | 1%nat => ctrl_mat I1 (M_RY 2)
  | 2%nat => ctrl_mat I1 [[N1; O]; [O; N1]]
  | _ => ctrl_mat I1 [[O; I1]; [N1; O]]
  end.
Definition M_CRZ (j : nat) : mat Zi :=
  match j with
  | 0%nat => ctrl_mat I1 M_I
  | 1%nat => ctrl_mat I1 (M_RZ 2)
  | 2%nat => ctrl_mat I1 [[N1; O]; [O; N1]]
  | _ => ctrl_mat I1 [[Ii; O]; [O; Ni]]
  end.

(* ---- the finite local condition behind every rule_ok:  U sigma = (-1)^s sigma' U, entrywise *)
Definition zi_eqb' (x y : Zi) : bool := zi_eqb x y.
Definition L1b (U : m1) (f : loc1) : bool :=
  forallb (fun x => forallb (fun z => forallb (fun r => forallb (fun a => forallb (fun c =>
    let '(x', z', r') := f x z r in
    zi_eqb (zi_mul (U a c) (ipow (2 * b2z r + loc x z c)))
           (zi_mul (ipow (2 * b2z r' + loc x' z' a)) (U (xorb a x') (xorb c x))))
    bools) bools) bools) bools) bools.

Definition L2b (U : m2) (f : loc2) : bool :=
  forallb (fun xc => forallb (fun zc => forallb (fun xt => forallb (fun zt => forallb (fun r =>
  forallb (fun a1 => forallb (fun a2 => forallb (fun c1 => forallb (fun c2 =>
    let '(xc', zc', xt', zt', r') := f xc zc xt zt r in
    zi_eqb (zi_mul (U a1 a2 c1 c2) (ipow (2 * b2z r + loc xc zc c1 + loc xt zt c2)))
           (zi_mul (ipow (2 * b2z r' + loc xc' zc' a1 + loc xt' zt' a2))
                   (U (xorb a1 xc') (xorb a2 xt') (xorb c1 xc) (xorb c2 xt))))
    bools) bools) bools) bools) bools) bools) bools) bools) bools.

(* the same condition in matrix form, for the reader:  U * sigma(x,z) = (-1)^s * sigma(x',z') * U *)
Definition sigma (x z : bool) : mat Zi :=
  match x, z with
  | false, false => M_I
  | true, false => M_X
  | false, true => M_Z
  | true, true => M_Y
  end.
Definition sgn (s : bool) : Zi := if s then zi_m1 else zi1.
Fixpoint mat_eqb (A B : mat Zi) : bool :=
  match A, B with
  | [], [] => true
  | r :: A', s :: B' =>
      (fix row_eqb (u v : list Zi) : bool :=
         match u, v with
         | [], [] => true
         | a :: u', b :: v' => zi_eqb a b && row_eqb u' v'
         | _, _ => false
         end) r s && mat_eqb A' B'
  | _, _ => false
  end.
Definition table1_ok (U : mat Zi) (f : loc1) : bool :=
  forallb (fun x => forallb (fun z =>
    let '(x', z', s) := f x z false in
    mat_eqb (mmul Ziops U (sigma x z)) (mscale Ziops (sgn s) (mmul Ziops (sigma x' z') U)))
    bools) bools.
Definition table2_ok (U : mat Zi) (f : loc2) : bool :=
  forallb (fun xc => forallb (fun zc => forallb (fun xt => forallb (fun zt =>
    let '(xc', zc', xt', zt', s) := f xc zc xt zt false in
    mat_eqb (mmul Ziops U (kron Ziops (sigma xc zc) (sigma xt zt)))
            (mscale Ziops (sgn s) (mmul Ziops (kron Ziops (sigma xc' zc') (sigma xt' zt')) U)))
    bools) bools) bools) bools.

(* ---- circuits of verified operations *)
Inductive sop :=
| S1 (U : m1) (f : loc1) (q : nat)
| S2 (U : m2) (f : loc2) (c t : nat).
Definition sop_check (o : sop) : bool :=
  match o with S1 U f _ => L1b U f | S2 U f _ _ => L2b U f end.
Definition sop_op (o : sop) : op :=
  match o with S1 _ f q => Op1 f q | S2 _ f c t => Op2 f c t end.
Definition sop_app (o : sop) (psi : amp) : amp :=
  match o with S1 U _ q => app1 U q psi | S2 U _ c t => app2 U c t psi end.
Definition run_spec (os : list sop) (psi : amp) : amp := fold_left (fun p o => sop_app o p) os psi.
Definition exec_rows (os : list op) (L : list row) : list row :=
  fold_left (fun L o => map (row_op o) L) os L.

(* |0...0> *)
Definition psi0 : amp := fun b => if forallb negb b then zi1 else zi0.

Definition stabilises (n : nat) (w : row) (psi : amp) : Prop :=
  forall b, length b = n -> pact w psi b = psi b.
Definition stabilises_b (n : nat) (w : row) (psi : amp) : bool :=
  forallb (fun b => zi_eqb (pact w psi b) (psi b)) (allbits n).
