(* C12/ModelFloat.v : bit-exact binary64 model (kernel primitive floats) of the three places in
   the Clifford path that are decided by float behaviour:
     gates/gates.py             _is_clifford_given_angle(angle)
                                   = isinstance(angle,(float,int)) and (angle % (np.pi/2)).is_integer()
     backends/_clifford_operations.py   RX/RY/RZ      theta % (2*np.pi) == 0 ... dispatch chain
                                        CRX/CRY/CRZ   theta % (4*np.pi) == 0 ... dispatch chain
   Python's float `%` (Objects/floatobject.c float_rem) is C fmod (exact) followed by the sign
   fix-up `mod += wx` (one rounded addition); fmod is computed here from exact integer arithmetic
   on the (sign, mantissa, exponent) decomposition.  No axioms beyond the primitive float/int
   types and operations of the kernel; nothing is imported from FloatAxioms/FloatLemmas.
   Executable definitions only (proofs: ProofsFloat.v). *)
From Coq Require Import ZArith Bool List Uint63 PrimFloat SpecFloat FloatOps.
Import ListNotations.
Local Open Scope Z_scope.

(* ---- exact fmod: result has the sign of x, |r| < |y|, r = x - n*y exactly *)
Definition fmod (x y : float) : float :=
  match Prim2SF x, Prim2SF y with
  | S754_nan, _ => nan
  | _, S754_nan => nan
  | S754_infinity _, _ => nan
  | _, S754_zero _ => nan
  | S754_zero _, _ => x
  | _, S754_infinity _ => x
  | S754_finite sx mx ex, S754_finite _ my ey =>
      let e := Z.min ex ey in
      let X := Z.pos mx * 2 ^ (ex - e) in
      let Y := Z.pos my * 2 ^ (ey - e) in
      match X mod Y with
      | Z0 => if sx then neg_zero else zero
      | Z.pos p => SF2Prim (S754_finite sx p e)
      | Z.neg _ => nan
      end
  end.

Definition fsign (x : float) : bool := PrimFloat.ltb x zero.   (* C `x < 0` *)
Definition fis_zero (x : float) : bool := PrimFloat.eqb x zero. (* C `x == 0.0` (true for -0.0, false for nan) *)

(* Python  x % y  on floats; None = ZeroDivisionError *)
Definition pymod (x y : float) : option float :=
  if fis_zero y then None
  else
    let m := fmod x y in
    if fis_zero m then Some (if get_sign y then neg_zero else zero)   (* copysign(0.0, wx) *)
    else if negb (Bool.eqb (fsign y) (fsign m)) then Some (PrimFloat.add m y)
    else Some m.

(* total version used inside translated expressions whose denominators are non-zero constants
   (checked separately): a zero denominator yields nan, on which every comparison is false *)
Definition pymodT (x y : float) : float := match pymod x y with Some r => r | None => nan end.

(* float.is_integer():  isfinite(x) and floor(x) == x *)
Definition is_integer (x : float) : bool :=
  match Prim2SF x with
  | S754_zero _ => true
  | S754_finite _ m e => if 0 <=? e then true else (Z.pos m mod 2 ^ (- e)) =? 0
  | _ => false
  end.

(* int -> float conversion, exact for |k| < 2^53 (Python raises OverflowError only beyond 1e308;
   larger ints are rounded by Python: outside the model, see int_ok) *)
Definition int_ok (k : Z) : bool := Z.abs k <? 2 ^ 53.
Definition float_of_Z (k : Z) : float :=
  match k with
  | Z0 => zero
  | Z.pos p => SF2Prim (S754_finite false p 0)
  | Z.neg p => SF2Prim (S754_finite true p 0)
  end.

(* ---- constants: np.pi = math.pi = 0x1.921fb54442d18p+1 (tie: checked against np.pi.hex() on every run) *)
Definition f_pi : float := 0x1.921fb54442d18p+1%float.
Definition f_halfpi : float := PrimFloat.div f_pi 2%float.        (* np.pi / 2 *)
Definition f_twopi : float := PrimFloat.mul 2%float f_pi.         (* 2 * np.pi *)
Definition f_fourpi : float := PrimFloat.mul 4%float f_pi.        (* 4 * np.pi *)

(* ---- the Clifford flag *)
Definition flag (x : float) : bool :=
  match pymod x f_halfpi with Some r => is_integer r | None => false end.

(* a candidate repair of _CRn_.clifford (tried, then withdrawn: the unit test test_cun pins the old flag) tests theta / 2:
     isinstance(theta, (float, int)) and _is_clifford_given_angle(theta / 2)
   (int / 2 is Python's correctly rounded true division: exact for |k| < 2^53) *)
Definition flag_half (x : float) : bool := flag (PrimFloat.div x 2%float).

Inductive pyval := PFloat (f : float) | PInt (k : Z) | POther.
(* isinstance(angle, (float, int)) and (angle % (np.pi/2)).is_integer();  np.float64 is a float
   subclass (PFloat); np.float32, sympy/Parameter objects, complex ... are POther *)
Definition is_clifford_given_angle (a : pyval) : bool :=
  match a with
  | PFloat f => flag f
  | PInt k => flag (float_of_Z k)
  | POther => false
  end.

Definition is_clifford_given_half_angle (a : pyval) : bool :=
  match a with
  | PFloat f => flag_half f
  | PInt k => flag_half (float_of_Z k)
  | POther => false
  end.

(* ---- the angle dispatch of the engine, as branch numbers.
   RX/RY/RZ:  0: I   1: (theta/(pi/2)-1)%4==0 [SX | RY_pi | S]   2: (theta/pi-1)%2==0 [X|Y|Z]   3: else
   the numbering is chosen so that the intended branch at theta = k*pi/2 is k mod 4 *)
Definition feq0 (x : float) : bool := PrimFloat.eqb x zero.

(* chain position in the source order of RX/RY/RZ (0: first test ... 3: else); the float
   expressions are written exactly as the translator emits them, so that the per-run bridge
   `gen_RX_pos theta = rot_pos theta` is proved for every float by unfolding *)
Definition rot_pos (theta : float) : nat :=
  if feq0 (pymodT theta (PrimFloat.mul 2%float f_pi)) then 0%nat
  else if feq0 (pymodT (PrimFloat.sub (PrimFloat.div theta f_pi) 1%float) 2%float) then 1%nat
  else if feq0 (pymodT (PrimFloat.sub (PrimFloat.div theta (PrimFloat.div f_pi 2%float)) 1%float) 4%float) then 2%nat
  else 3%nat.
Definition rot_branch (theta : float) : nat :=
  match rot_pos theta with 0 => 0 | 1 => 2 | 2 => 1 | _ => 3 end%nat.

(* CRX/CRY/CRZ: Some j: the branch for theta = j*pi (mod 4*pi);  None: no branch applies, the
   Python function falls off its end and returns None (the caller ignores the return value) *)
Definition crot_branch (theta : float) : option nat :=
  if feq0 (pymodT theta (PrimFloat.mul 4%float f_pi)) then Some 0%nat
  else if feq0 (pymodT (PrimFloat.sub (PrimFloat.div theta f_pi) 1%float) 4%float) then Some 1%nat
  else if feq0 (pymodT (PrimFloat.sub (PrimFloat.div theta (PrimFloat.mul 2%float f_pi)) 1%float) 2%float) then Some 2%nat
  else if feq0 (pymodT (PrimFloat.sub (PrimFloat.div theta f_pi) 3%float) 4%float) then Some 3%nat
  else None.

(* ---- the floats the property quantifies over: fl(k*pi/2) in the two spellings, fl(k*pi) *)
Definition ang_a (k : Z) : float := PrimFloat.div (PrimFloat.mul (float_of_Z k) f_pi) 2%float.  (* k*np.pi/2 *)
Definition ang_b (k : Z) : float := PrimFloat.mul (float_of_Z k) f_halfpi.                     (* k*(np.pi/2) *)
Definition ang_pi (k : Z) : float := PrimFloat.mul (float_of_Z k) f_pi.                        (* k*np.pi *)

Fixpoint zrange_from (lo : Z) (len : nat) : list Z :=
  match len with O => [] | S l => lo :: zrange_from (lo + 1) l end.
Definition zsym (K : Z) : list Z := zrange_from (- K) (Z.to_nat (2 * K + 1)).   (* -K .. K *)

(* structural equality of floats (distinguishes -0.0 from 0.0, identifies all nans): used by the
   validation run that compares the model with CPython on float.hex() literals *)
Definition sf_eqb (a b : spec_float) : bool :=
  match a, b with
  | S754_zero s, S754_zero t => Bool.eqb s t
  | S754_infinity s, S754_infinity t => Bool.eqb s t
  | S754_nan, S754_nan => true
  | S754_finite s m e, S754_finite t m' e' => Bool.eqb s t && Pos.eqb m m' && Z.eqb e e'
  | _, _ => false
  end.
Definition same_float (a b : float) : bool := sf_eqb (Prim2SF a) (Prim2SF b).
Definition same_ofloat (a : option float) (b : option float) : bool :=
  match a, b with
  | Some x, Some y => same_float x y
  | None, None => true
  | _, _ => false
  end.

(* rational value of a finite float as numerator / 2^den_exp, for the statements about distances *)
Definition f_num_den (x : float) : option (Z * Z) :=   (* (num, d) meaning num / 2^d, d >= 0 *)
  match Prim2SF x with
  | S754_zero _ => Some (0, 0)
  | S754_finite s m e =>
      let v := if s then Z.neg m else Z.pos m in
      if 0 <=? e then Some (v * 2 ^ e, 0) else Some (v, - e)
  | _ => None
  end.
