(* C12/ModelAG04.v : executable model of quantum_info/_clifford_utils.py  _decomposition_AG04
   (tableau -> circuit, Aaronson-Gottesman 2004) with its helpers
   _set_qubit_x_to_true / _set_row_x_to_zero / _set_row_z_to_zero and _single_qubit_clifford_decomposition.
   The Python code reads the rows `x, z` through numpy *views* of the symplectic matrix that the engine
   functions update in place, so every test `if x[k]` sees the current matrix: the model re-reads the
   current tableau at every step.  The gates the algorithm emits: H, S, SDG, CNOT, SWAP, X, Y, Z.
   No proofs in this file. *)
From Coq Require Import List Bool Arith.
From QV Require Import C12.ModelTableau C12.ModelMeasure.
Import ListNotations.

Inductive agate :=
| AH (q : nat) | AS (q : nat) | ASDG (q : nat) | AX (q : nat) | AY (q : nat) | AZ (q : nat)
| ACNOT (c t : nat) | ASWAP (a b : nat).

Definition agate_op (g : agate) : op :=
  match g with
  | AH q => Op1 m_H q | AS q => Op1 m_S q | ASDG q => Op1 m_SDG q
  | AX q => Op1 m_X q | AY q => Op1 m_Y q | AZ q => Op1 m_Z q
  | ACNOT c t => Op2 m_CNOT c t | ASWAP a b => Op2 m_SWAP a b
  end.

(* gate.dagger() *)
Definition adagger (g : agate) : agate :=
  match g with AS q => ASDG q | ASDG q => AS q | g' => g' end.

(* Circuit.invert(): reversed order, every gate replaced by its dagger *)
Definition ainvert (c : list agate) : list agate := rev (map adagger c).

(* state of the algorithm: current tableau, gates applied so far (most recent first) *)
Definition astate := (tableau * list agate)%type.
Definition emit (g : agate) (st : astate) : astate := (tab_op (agate_op g) (fst st), g :: snd st).

Definition dx (st : astate) (row k : nat) : bool := bit k (rx (trow (fst st) row)).
Definition dz (st : astate) (row k : nat) : bool := bit k (rz (trow (fst st) row)).

(* for k in range(lo, lo+len): if test(current state, k): emit (g k) *)
Definition sweep (test : astate -> nat -> bool) (g : nat -> agate) (lo len : nat) (st : astate) : astate :=
  fold_left (fun s k => if test s k then emit (g k) s else s) (seq lo len) st.

(* first k in range(lo, lo+len) with test *)
Definition first_k (test : nat -> bool) (lo len : nat) : option nat := find_from test lo len.

(* _set_qubit_x_to_true(clifford, circuit, qubit): row = destabiliser `q` *)
Definition set_qubit_x_to_true (n q : nat) (st : astate) : astate :=
  if dx st q q then st
  else match first_k (dx st q) (S q) (n - S q) with
       | Some k => emit (ASWAP k q) st
       | None =>
           match first_k (dz st q) q (n - q) with
           | Some k => let st1 := emit (AH k) st in if (k =? q)%nat then st1 else emit (ASWAP k q) st1
           | None => st
           end
       end.

Definition any_from (test : nat -> bool) (lo len : nat) : bool := existsb test (seq lo len).

(* _set_row_x_to_zero: row = destabiliser `q` *)
Definition set_row_x_to_zero (n q : nat) (st : astate) : astate :=
  let st1 := sweep (fun s k => dx s q k) (fun k => ACNOT q k) (S q) (n - S q) st in
  if any_from (dz st1 q) q (n - q) then
    let st2 := if dz st1 q q then st1 else emit (AS q) st1 in
    let st3 := sweep (fun s k => dz s q k) (fun k => ACNOT k q) (S q) (n - S q) st2 in
    emit (AS q) st3
  else st1.

(* _set_row_z_to_zero: row = stabiliser `q` (row n + q) *)
Definition set_row_z_to_zero (n q : nat) (st : astate) : astate :=
  let st1 := if any_from (dz st (n + q)) (S q) (n - S q)
             then sweep (fun s k => dz s (n + q) k) (fun k => ACNOT k q) (S q) (n - S q) st
             else st in
  if any_from (dx st1 (n + q)) q (n - q) then
    let st2 := emit (AH q) st1 in
    let st3 := sweep (fun s k => dx s (n + q) k) (fun k => ACNOT q k) (S q) (n - S q) st2 in
    let st4 := if dz st3 (n + q) q then emit (AS q) st3 else st3 in
    emit (AH q) st4
  else st1.

Definition fix_phases (n : nat) (st : astate) : astate :=
  fold_left (fun s k =>
    let s1 := if rr (trow (fst s) k) then emit (AZ k) s else s in
    if rr (trow (fst s1) (n + k)) then emit (AX k) s1 else s1) (seq 0 n) st.

Definition ag04_sweeps (n : nat) (T : tableau) : astate :=
  fix_phases n
    (fold_left (fun s k => set_row_z_to_zero n k (set_row_x_to_zero n k (set_qubit_x_to_true n k s)))
               (seq 0 n) (T, [])).

(* _single_qubit_clifford_decomposition (nqubits == 1; returned as it is, not inverted) *)
Definition single_qubit_decomposition (T : tableau) : list agate :=
  let d := trow T 0 in let s := trow T 1 in
  let ph := match rr d, rr s with
            | true, false => [AZ 0] | false, true => [AX 0] | true, true => [AY 0] | false, false => []
            end in
  let dxb := bit 0 (rx d) in let dzb := bit 0 (rz d) in
  let sxb := bit 0 (rx s) in let szb := bit 0 (rz s) in
  ph ++ (if szb && negb sxb then (if dzb then [AS 0] else [])
         else if negb szb && sxb then (if dxb then [ASDG 0] else []) ++ [AH 0]
         else (if negb dzb then [AS 0] else []) ++ [AH 0; AS 0]).

(* _decomposition_AG04: the returned circuit, gates in application order *)
Definition ag04 (n : nat) (T : tableau) : list agate :=
  if (n =? 1)%nat then single_qubit_decomposition T
  else ainvert (rev (snd (ag04_sweeps n T))).

Definition run_agates (c : list agate) (T : tableau) : tableau := exec (map agate_op c) T.

(* printing / comparison helpers for the harness: (tag, q0, q1) *)
Definition agate_code (g : agate) : nat * nat * nat :=
  match g with
  | AH q => (0, q, 0) | AS q => (1, q, 0) | ASDG q => (2, q, 0) | AX q => (3, q, 0) | AY q => (4, q, 0) | AZ q => (5, q, 0)
  | ACNOT c t => (6, c, t) | ASWAP a b => (7, a, b)
  end.
Definition tab_eqb (A B : tableau) : bool := llbeq (tab_bits A) (tab_bits B).
