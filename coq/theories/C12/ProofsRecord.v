(* C12/ProofsRecord.v : proofs about ModelRecord and about execution histories of ModelShot.run_steps *)
From Coq Require Import List Bool Arith Lia.
From QV Require Import C12.ModelFloat C12.ModelTableau C12.ModelExec C12.ModelMeasure C12.ModelShot C12.ModelRecord.
Import ListNotations.

Lemma nth_index_of_map : forall (f : nat -> bool) l q, In q l -> nth (index_of q l) (map f l) false = f q.
Proof.
  induction l as [|x l IH]; intros q Hin; [destruct Hin|].
  cbn [index_of map]. destruct (Nat.eqb x q) eqn:E.
  - apply Nat.eqb_eq in E. subst. reflexivity.
  - cbn [nth]. apply IH. destruct Hin as [->|H]; [rewrite Nat.eqb_refl in E; discriminate|exact H].
Qed.

Lemma record_by_qubit_proof : forall f tq srt, incl tq srt -> record tq srt (sample_of f srt) = sample_of f tq.
Proof.
  intros f tq srt Hinc. unfold record, sample_of. apply map_ext_in. intros q Hq.
  apply nth_index_of_map. apply Hinc, Hq.
Qed.

Lemma attributed_is_outcome_proof : forall f tq srt q, incl tq srt -> In q tq ->
  attributed tq (record tq srt (sample_of f srt)) q = f q.
Proof.
  intros f tq srt q Hinc Hq. rewrite record_by_qubit_proof by exact Hinc.
  unfold attributed, sample_of. apply nth_index_of_map, Hq.
Qed.

Lemma run_steps_app_proof : forall n p1 p2 T,
  run_steps n (p1 ++ p2) T =
  match run_steps n p1 T with
  | Some (o1, T1) => match run_steps n p2 T1 with Some (o2, T2) => Some (o1 ++ o2, T2) | None => None end
  | None => None
  end.
Proof.
  induction p1 as [|s p1 IH]; intros p2 T.
  - cbn [app run_steps]. destruct (run_steps n p2 T) as [[o2 T2]|]; reflexivity.
  - cbn [app]. destruct s as [g|qs dr]; cbn [run_steps].
    + destruct (apply_gate_clifford g); try reflexivity; apply IH.
    + destruct (M_real n T qs dr) as [[s T1]|]; [|reflexivity].
      rewrite IH. destruct (run_steps n p1 T1) as [[o1 T2]|]; [|reflexivity].
      destruct (run_steps n p2 T2) as [[o2 T3]|]; reflexivity.
Qed.
