(* C12/ModelMeasure.v : executable model of the measurement on the tableau,
   backends/_clifford_operations.py  _exponent / _rowsum / _determined_outcome / _random_outcome / M
   (non-collapsing path, which is what Clifford.samples() -> sample_shots uses).

   Three instances of the same skeleton:
     M_real : the numpy engine as it is written now (after the repairs e7dd78371 / 5cb9f09ff):
              _rowsum on the unpacked bits, _exponent in uint8 arithmetic (mod 256, harmless mod 4),
              the scratch row accumulated sequentially;
     M_spec : the Aaronson-Gottesman procedure with AG's g function (M_real = M_spec is proved);
     M_old  : bit-exact model of the engine BEFORE the repair: the x and z blocks were packed into
              bytes along the qubit axis (np.packbits, big-endian) before _rowsum, _exponent was
              evaluated with uint8 *byte* arithmetic on the packed bytes, and the determined outcome
              XOR-reduced the phases of the selected stabilisers.  Kept so that a regression to that
              code is recognised and explained by the harness.
   The random draws of the implementation (np.random.randint(2)) are an oracle stream.
   No proofs in this file. *)
From Coq Require Import List Bool Arith ZArith.
From QV Require Import C12.ModelTableau.
Import ListNotations.
Local Open Scope Z_scope.

Definition rx (w : row) : list bool := fst (fst w).
Definition rz (w : row) : list bool := snd (fst w).
Definition rr (w : row) : bool := snd w.
Definition b2z (b : bool) : Z := if b then 1 else 0.

Fixpoint lxor (a b : list bool) : list bool :=
  match a, b with
  | x :: a', y :: b' => xorb x y :: lxor a' b'
  | _, _ => []
  end.

(* ---- _exponent, per qubit (arguments: 1 = the row that is added, 2 = the row that is updated) *)
Definition exponent_int (x1 z1 x2 z2 : Z) : Z :=
  2 * (x1 * x2 * (z2 - z1) + z1 * z2 * (x1 - x2)) - x1 * z2 + x2 * z1.
Definition exponent_bit (x1 z1 x2 z2 : bool) : Z :=
  exponent_int (b2z x1) (b2z z1) (b2z x2) (b2z z2).

(* Aaronson-Gottesman's g *)
Definition ag_g (x1 z1 x2 z2 : bool) : Z :=
  match x1, z1 with
  | false, false => 0
  | true, true => b2z z2 - b2z x2
  | true, false => b2z z2 * (2 * b2z x2 - 1)
  | false, true => b2z x2 * (1 - 2 * b2z z2)
  end.

Fixpoint sum4 (f : bool -> bool -> bool -> bool -> Z) (x1 z1 x2 z2 : list bool) : Z :=
  match x1, z1, x2, z2 with
  | a :: x1', b :: z1', c :: x2', d :: z2' => f a b c d + sum4 f x1' z1' x2' z2'
  | _, _, _, _ => 0
  end.

(* ---- np.packbits(bits, axis=1): 8 qubits per byte, first qubit = most significant bit *)
Fixpoint byte_of (w : nat) (l : list bool) : Z :=     (* w = number of bit positions left *)
  match w with
  | O => 0
  | S w' => match l with
            | [] => 0
            | b :: l' => b2z b * 2 ^ Z.of_nat w' + byte_of w' l'
            end
  end.
Fixpoint pack (fuel : nat) (l : list bool) : list Z :=
  match fuel with
  | O => []
  | S f => match l with
           | [] => []
           | _ => byte_of 8 l :: pack f (skipn 8 l)
           end
  end.
Definition packbits (l : list bool) : list Z := pack (length l) l.

(* _exponent on packed uint8 arrays: every operation wraps mod 256 *)
Definition exponent_byte (x1 z1 x2 z2 : Z) : Z := (exponent_int x1 z1 x2 z2) mod 256.
Fixpoint sumbytes (x1 z1 x2 z2 : list Z) : Z :=
  match x1, z1, x2, z2 with
  | a :: x1', b :: z1', c :: x2', d :: z2' => exponent_byte a b c d + sumbytes x1' z1' x2' z2'
  | _, _, _, _ => 0
  end.

(* total exponent of _rowsum(h, i):  2 r_h + 2 r_i + sum(exponents) *)
Definition total_ag (wh wi : row) : Z :=
  2 * b2z (rr wh) + 2 * b2z (rr wi) + sum4 ag_g (rx wi) (rz wi) (rx wh) (rz wh).
Definition total_bits (wh wi : row) : Z :=
  2 * b2z (rr wh) + 2 * b2z (rr wi) + sum4 exponent_bit (rx wi) (rz wi) (rx wh) (rz wh).
Definition total_packed (wh wi : row) : Z :=
  2 * b2z (rr wh) + 2 * b2z (rr wi)
  + sumbytes (packbits (rx wi)) (packbits (rz wi)) (packbits (rx wh)) (packbits (rz wh)).

(* _rowsum, one (h, i) pair, determined=False:  r = 0 iff total % 4 == 0 *)
Definition rowsum_with (total : row -> row -> Z) (wh wi : row) : row :=
  (lxor (rx wi) (rx wh), lxor (rz wi) (rz wh), negb (total wh wi mod 4 =? 0)).
Definition rowsum_ag := rowsum_with total_ag.
Definition rowsum_bits := rowsum_with total_bits.       (* _exponent on unpacked bits *)
Definition rowsum_packed := rowsum_with total_packed.   (* what the numpy engine computes *)

(* ---- M *)
Definition dummy_row : row := ([], [], false).
Definition trow (T : tableau) (i : nat) : row := nth i T dummy_row.

Fixpoint find_from (f : nat -> bool) (i len : nat) : option nat :=
  match len with
  | O => None
  | S l => if f i then Some i else find_from f (S i) l
  end.
(* p = state[nqubits:-1, q].nonzero()[0];  first stabiliser (index relative to n) with x_q = 1 *)
Definition first_p (n q : nat) (T : tableau) : option nat :=
  find_from (fun i => bit q (rx (trow T (n + i)))) 0 n.

Fixpoint mapi_from {A B : Type} (f : nat -> A -> B) (i : nat) (l : list A) : list B :=
  match l with [] => [] | a :: l' => f i a :: mapi_from f (S i) l' end.

(* _random_outcome(state, p, q, nqubits) with p already shifted by n; o = the random draw *)
Definition random_outcome (rs : row -> row -> row) (n : nat) (T : tableau) (p q : nat) (o : bool) : tableau :=
  let wp := trow T p in
  let T1 := mapi_from (fun j w =>
              if (j <? 2 * n)%nat && negb (j =? p)%nat && bit q (rx w) then rs w wp else w) 0 T in
  let T2 := upd (p - n) wp T1 in
  upd p (zeros n, unit_vec n q, o) T2.

(* _determined_outcome returns the scratch row; the outcome is its phase bit.
   engine before repair e7dd78371: every per-pair phase is r_i (the scratch row is zero) and the
   phases are XOR-reduced (reduce(np.logical_xor, r)); the x/z part written to the scratch row is
   meaningless there and never observable (non-collapsing M works on a copy): modelled as zero *)
Definition determined_real (n : nat) (T : tableau) (q : nat) : row :=
  (zeros n, zeros n,
   fold_left (fun acc i => if bit q (rx (trow T i)) then xorb acc (rr (trow T (n + i))) else acc)
             (seq 0 n) false).
(* generic sequential accumulation:  state[-1,:] = 0;  for i in idx: rowsum(scratch, i) *)
Definition determined_with (rs : row -> row -> row) (n : nat) (T : tableau) (q : nat) : row :=
  fold_left (fun acc i => if bit q (rx (trow T i)) then rs acc (trow T (n + i)) else acc)
            (seq 0 n) (zeros n, zeros n, false).
(* Aaronson-Gottesman: scratch := product of the selected stabilisers, accumulated with rowsum *)
Definition determined_spec := determined_with rowsum_ag.
(* the engine after the repair: the same loop, _exponent evaluated on the unpacked bits *)
Definition determined_bits := determined_with rowsum_bits.

(* M(state, qubits, nqubits): (sample, final state), or None when the oracle stream is exhausted.
   The final state is what M(collapse=True) writes back (scratch row included). *)
Fixpoint measure (rs : row -> row -> row) (det : nat -> tableau -> nat -> row)
         (n : nat) (T : tableau) (qs : list nat) (oracle : list bool) : option (list bool * tableau) :=
  match qs with
  | [] => Some ([], T)
  | q :: qs' =>
      match first_p n q T with
      | Some i =>
          match oracle with
          | [] => None
          | o :: os =>
              match measure rs det n (random_outcome rs n T (n + i) q o) qs' os with
              | Some (s, T') => Some (o :: s, T')
              | None => None
              end
          end
      | None =>
          let w := det n T q in
          match measure rs det n (upd (2 * n) w T) qs' oracle with
          | Some (s, T') => Some (rr w :: s, T')
          | None => None
          end
      end
  end.

Definition M_old := measure rowsum_packed determined_real.   (* engine before e7dd78371 *)
Definition M_real := measure rowsum_bits determined_bits.    (* engine as it is written now *)
Definition M_spec := measure rowsum_ag determined_spec.      (* Aaronson-Gottesman reference *)

(* number of oracle bits M consumes (= number of random outcomes), for the harness *)
Definition is_random (n : nat) (T : tableau) (q : nat) : bool :=
  match first_p n q T with Some _ => true | None => false end.

(* symplectic product of two rows: false iff the Pauli operators commute *)
Fixpoint sympl (xa za xb zb : list bool) : bool :=
  match xa, za, xb, zb with
  | a :: xa', b :: za', c :: xb', d :: zb' => xorb (xorb (a && d) (b && c)) (sympl xa' za' xb' zb')
  | _, _, _, _ => false
  end.
Definition anticommute (a b : row) : bool := sympl (rx a) (rz a) (rx b) (rz b).

(* the tableau invariant: destabilisers D_i and stabilisers S_j satisfy
   [D_i, D_j] = 0, [S_i, S_j] = 0, {D_i, S_i} = 0, [D_i, S_j] = 0 (i <> j) *)
Definition tableau_ok (n : nat) (T : tableau) : bool :=
  forallb (fun i => forallb (fun j =>
     Bool.eqb (anticommute (trow T i) (trow T j))
              (if (i <? n)%nat then (j =? i + n)%nat else (i =? j + n)%nat))
     (seq 0 (2 * n))) (seq 0 (2 * n)).
