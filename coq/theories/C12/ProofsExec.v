(* C12/ProofsExec.v : the rule library (every rule_ok instance), and the acceptance test vs. the
   argument passing of apply_gate_clifford for generically controlled gates. *)
From Coq Require Import ZArith List Bool Arith Lia PrimFloat.
From QV Require Import Base.Mat Base.Zi C12.ModelFloat C12.ModelTableau C12.ModelExec C12.ModelMeasure
  C12.Pauli C12.ProofsRules C12.ProofsCircuit C12.ProofsFloat.
Import ListNotations.

(* ---------------------------------------------------------------- the library: rule = conjugation *)
Ltac by_table1 := apply app1_conj; vm_compute; reflexivity.
Ltac by_table2 := apply app2_conj; vm_compute; reflexivity.

Lemma rule_I : conj1_ok (of_mat1 M_I) m_I. Proof. by_table1. Qed.
Lemma rule_H : conj1_ok (of_mat1 M_H) m_H. Proof. by_table1. Qed.
Lemma rule_X : conj1_ok (of_mat1 M_X) m_X. Proof. by_table1. Qed.
Lemma rule_Y : conj1_ok (of_mat1 M_Y) m_Y. Proof. by_table1. Qed.
Lemma rule_Z : conj1_ok (of_mat1 M_Z) m_Z. Proof. by_table1. Qed.
Lemma rule_S : conj1_ok (of_mat1 M_S) m_S. Proof. by_table1. Qed.
Lemma rule_SDG : conj1_ok (of_mat1 M_SDG) m_SDG. Proof. by_table1. Qed.
Lemma rule_SX : conj1_ok (of_mat1 M_SX) m_SX. Proof. by_table1. Qed.
Lemma rule_SXDG : conj1_ok (of_mat1 M_SXDG) m_SXDG. Proof. by_table1. Qed.
Lemma rule_RX j : conj1_ok (of_mat1 (M_RX j)) (m_RX_branch j). Proof. apply app1_conj, rx_check. Qed.
Lemma rule_RY j : conj1_ok (of_mat1 (M_RY j)) (m_RY_branch j). Proof. apply app1_conj, ry_check. Qed.
Lemma rule_RZ j : conj1_ok (of_mat1 (M_RZ j)) (m_RZ_branch j). Proof. apply app1_conj, rz_check. Qed.
Lemma rule_CNOT : conj2_ok (of_mat2 M_CNOT) m_CNOT. Proof. by_table2. Qed.
Lemma rule_CY : conj2_ok (of_mat2 M_CY) m_CY. Proof. by_table2. Qed.
Lemma rule_CZ : conj2_ok (of_mat2 M_CZ) m_CZ. Proof. by_table2. Qed.
Lemma rule_SWAP : conj2_ok (of_mat2 M_SWAP) m_SWAP. Proof. by_table2. Qed.
Lemma rule_iSWAP : conj2_ok (of_mat2 M_iSWAP) m_iSWAP. Proof. by_table2. Qed.
Lemma rule_FSWAP : conj2_ok (of_mat2 M_FSWAP) m_FSWAP. Proof. by_table2. Qed.
Lemma rule_ECR : conj2_ok (of_mat2 M_ECR) m_ECR. Proof. by_table2. Qed.
Lemma rule_CRX j : conj2_ok (of_mat2 (M_CRX j)) (m_CRX_branch j). Proof. apply app2_conj, crx_check. Qed.
Lemma rule_CRY j : conj2_ok (of_mat2 (M_CRY j)) (m_CRY_branch j). Proof. apply app2_conj, cry_check. Qed.
Lemma rule_CRZ j : conj2_ok (of_mat2 (M_CRZ j)) (m_CRZ_branch j). Proof. apply app2_conj, crz_check. Qed.

(* the same finite facts in matrix form (Base/Mat products over Base/Zi):
   U sigma(x,z) = (-1)^s sigma(x',z') U  for the 4 (16) Paulis *)
Lemma tables_matrix_form :
  forallb (fun p => table1_ok (fst p) (snd p))
    [(M_I, m_I); (M_H, m_H); (M_X, m_X); (M_Y, m_Y); (M_Z, m_Z); (M_S, m_S); (M_SDG, m_SDG); (M_SX, m_SX); (M_SXDG, m_SXDG);
     (M_RX 1, m_SX); (M_RX 2, m_X); (M_RX 3, m_SXDG); (M_RY 1, m_RY_pi); (M_RY 2, m_Y); (M_RY 3, m_RY_3pi_2);
     (M_RZ 1, m_S); (M_RZ 2, m_Z); (M_RZ 3, m_SDG)] = true
  /\ forallb (fun p => table2_ok (fst p) (snd p))
    ([(M_CNOT, m_CNOT); (M_CY, m_CY); (M_CZ, m_CZ); (M_SWAP, m_SWAP); (M_iSWAP, m_iSWAP); (M_FSWAP, m_FSWAP); (M_ECR, m_ECR)]
     ++ map (fun j => (M_CRX j, m_CRX_branch j)) [0; 1; 2; 3]
     ++ map (fun j => (M_CRY j, m_CRY_branch j)) [0; 1; 2; 3]
     ++ map (fun j => (M_CRZ j, m_CRZ_branch j)) [0; 1; 2; 3]) = true.
Proof. split; vm_compute; reflexivity. Qed.

(* ---------------------------------------------------------------- controlled gates *)
(* sound acceptance needs: whenever a gate is flagged Clifford, every qubit it acts on is handed to
   the engine (then execute_plain_ok applies) *)
Definition controlled_flag_ok_stmt : Prop :=
  forall base qs g, g_ctrl base = [] -> controlled_by base qs = Some g ->
    clifford g = true -> args_cover_qubits g = true.

Definition gZ (t : nat) : gate := mkGate cZ [t] [] [t] None None false.
Definition gH (t : nat) : gate := mkGate cH [t] [] [t] None None false.

Theorem controlled_flag_refuted :
  exists base qs g, g_ctrl base = [] /\ controlled_by base qs = Some g
                    /\ clifford g = true /\ args_cover_qubits g = false.
Proof.
  exists (gZ 2), [0; 1], (mkGate cZ [2] [0; 1] [2] None None false).
  repeat split.
Qed.

Corollary controlled_flag_ok_false : ~ controlled_flag_ok_stmt.
Proof.
  intros H. destruct controlled_flag_refuted as [base [qs [g [H1 [H2 [H3 H4]]]]]].
  rewrite (H base qs g H1 H2 H3) in H4. discriminate.
Qed.

(* the semantic consequence: H H H ; Z(2).controlled_by(0,1) is accepted, the engine applies the
   bare Z, and the stabiliser -X_2 (row 5) of the result does not stabilise CCZ |+++> *)
Definition ccz_circuit : list gate := [gH 0; gH 1; gH 2; mkGate cZ [2] [0; 1] [2] None None false].
Definition ccz_state : amp :=
  capp [0; 1] (of_mat1 M_Z) 2 (app1 (of_mat1 M_H) 2 (app1 (of_mat1 M_H) 1 (app1 (of_mat1 M_H) 0 psi0))).

Theorem controlled_sim_refuted :
  exists T w, execute_circuit 3 ccz_circuit = Final T /\ In w (stabilisers 3 T)
              /\ stabilises_b 3 w ccz_state = false.
Proof.
  eexists. exists ([false; false; true], [false; false; false], true).
  split; [vm_compute; reflexivity|]. split; [cbn; auto 10|]. vm_compute. reflexivity.
Qed.

(* one-control Paulis are dedicated classes whose control reaches the engine: accepted and covered *)
Example controlled_one_control_ok :
  match controlled_by (gZ 1) [0] with
  | Some g => clifford g && args_cover_qubits g
  | None => false
  end = true.
Proof. vm_compute. reflexivity. Qed.

(* non-vacuity of execute_plain_ok: a circuit that satisfies all its hypotheses *)
Definition demo_circuit : list gate :=
  [gH 0; mkGate cCNOT [0; 1] [0] [1] None None false;
   mkGate cRX [1] [] [1] (Some (PFloat f_halfpi)) (Some f_halfpi) false;
   mkGate cCRZ [1; 0] [1] [0] (Some (PFloat f_pi)) (Some f_pi) false;
   mkGate cM [0; 1] [] [0; 1] None None false].
Example execute_plain_ok_nonvacuous :
  exists l T, sops_of demo_circuit = Some l /\ Forall (sop_valid 2) l /\ execute_circuit 2 demo_circuit = Final T
              /\ length (stabilisers 2 T) = 2%nat.
Proof.
  eexists. eexists. split; [vm_compute; reflexivity|]. split; [repeat constructor|].
  split; vm_compute; reflexivity.
Qed.

(* ---------------------------------------------------------------- what a rotation gate means in execute_plain_ok *)
(* for theta = fl(k*pi/2) (|k| <= 4096, flagged) the operator paired with the engine's rule by
   sop_of_gate is the exact rotation at (k mod 4)*pi/2, which equals the rotation at k*pi/2 up to
   the sign (-1)^(k div 4), a global phase *)
Local Open Scope Z_scope.
Theorem rx_gate_meaning_K : forall k q, - 4096 <= k <= 4096 -> flag (ang_a k) = true ->
  sop_of_gate (mkGate cRX [q] [] [q] (Some (PFloat (ang_a k))) (Some (ang_a k)) false)
  = Some (S1 (of_mat1 (M_RX (Z.to_nat (k mod 4)))) (m_RX_branch (Z.to_nat (k mod 4))) q).
Proof.
  intros k q Hk Hf. unfold sop_of_gate, args_cover_qubits, qubits. cbn [g_ctrl g_targ g_args g_cls g_kw app forallb existsb].
  rewrite Nat.eqb_refl. cbn [orb andb negb]. unfold m_RX.
  destruct (dispatch_selects_K k Hk) as [Ha _]. now rewrite (Ha Hf).
Qed.

Theorem crx_gate_meaning_K : forall k c t, c <> t -> - 4096 <= k <= 4096 -> flag (ang_pi k) = true ->
  sop_of_gate (mkGate cCRX [c; t] [c] [t] (Some (PFloat (ang_pi k))) (Some (ang_pi k)) false)
  = Some (S2 (of_mat2 (M_CRX (Z.to_nat (k mod 4)))) (m_CRX_branch (Z.to_nat (k mod 4))) c t).
Proof.
  intros k c t Hct Hk Hf. unfold sop_of_gate, args_cover_qubits, qubits. cbn [g_ctrl g_targ g_args g_cls g_kw app forallb existsb].
  rewrite !Nat.eqb_refl. cbn [orb andb negb]. rewrite orb_true_r. cbn [negb].
  now rewrite (cdispatch_selects_K k Hk Hf).
Qed.
