(* C12/ModelRecord.v : how a collapsing measurement records its outcome (gates/measurements.py M.apply_clifford +
   measurements.py MeasurementResult.add_shot_from_sample).
     M.apply_clifford     hands  srt = sorted(target_qubits)  to backend.sample_shots / engine.M, which returns one bit per
                          listed qubit, in the order of the list it was given;
     add_shot_from_sample re-orders that sample into the gate's own qubit order:  sample[[srt.index(q) for q in target_qubits]].
   Executable definitions only; the statements are in ProofsRecord.v / PropsRecord.v. *)
From Coq Require Import List Bool Arith.
Import ListNotations.

Fixpoint index_of (q : nat) (l : list nat) : nat :=
  match l with
  | [] => 0
  | x :: l' => if Nat.eqb x q then 0 else S (index_of q l')
  end.

(* add_shot_from_sample: the sample s arrives in the order srt, the record is in the order tq *)
Definition record (tq srt : list nat) (s : list bool) : list bool :=
  map (fun q => nth (index_of q srt) s false) tq.

(* what engine.M returns for the qubit list qs when qubit q collapsed to (f q) *)
Definition sample_of (f : nat -> bool) (qs : list nat) : list bool := map f qs.

(* the outcome a reader of the gate's result attributes to qubit q: the bit at q's position in the gate's qubit list *)
Definition attributed (tq : list nat) (rec : list bool) (q : nat) : bool := nth (index_of q tq) rec false.
