(* C12/ProofsAG04.v : tableau -> circuit (Aaronson-Gottesman 2004) is correct.
     ainvert_undoes    for every gate list c over the AG04 alphabet on valid qubits and every tableau with
                       well-formed rows:  run (ainvert c) (run c T) = T
     sweeps_identity   for every n >= 2 and every tableau satisfying the commutation relations (Inv) with a
                       zero scratch row, the three sweeps + the phase fix end in CliffordBackend.zero_state
     ag04_ok           hence the circuit returned by _decomposition_AG04 re-simulates, from the zero state,
                       to exactly the input tableau (all rows, phases included); n = 1 by exhaustive computation *)
From Coq Require Import List Bool Arith Lia.
From QV Require Import Base.Mat Base.Zi C12.ModelTableau C12.ModelMeasure C12.Pauli C12.ProofsRules
  C12.ProofsCircuit C12.ProofsMeasure C12.ProofsMeasure2 C12.ProofsMeasure3 C12.ProofsBorn C12.ModelAG04.
Import ListNotations.

(* ---------------------------------------------------------------- 1. inversion *)
Definition inv1_ok (f f' : loc1) : bool :=
  forallb (fun x => forallb (fun z => forallb (fun r =>
    let '(a, b, c) := f x z r in let '(a', b', c') := f' a b c in
    Bool.eqb a' x && Bool.eqb b' z && Bool.eqb c' r) bools) bools) bools.
Definition inv2_ok (f f' : loc2) : bool :=
  forallb (fun xc => forallb (fun zc => forallb (fun xt => forallb (fun zt => forallb (fun r =>
    let '(a, b, c, d, e) := f xc zc xt zt r in let '(a', b', c', d', e') := f' a b c d e in
    Bool.eqb a' xc && Bool.eqb b' zc && Bool.eqb c' xt && Bool.eqb d' zt && Bool.eqb e' r)
    bools) bools) bools) bools) bools.

Lemma inv1_sound f f' : inv1_ok f f' = true -> forall x z r,
  f' (fst (fst (f x z r))) (snd (fst (f x z r))) (snd (f x z r)) = (x, z, r).
Proof.
  unfold inv1_ok. intros H x z r.
  rewrite forallb_forall in H. specialize (H x (in_bools x)).
  rewrite forallb_forall in H. specialize (H z (in_bools z)).
  rewrite forallb_forall in H. specialize (H r (in_bools r)).
  destruct (f x z r) as [[a b] c]. cbn [fst snd]. destruct (f' a b c) as [[a' b'] c'].
  apply andb_prop in H. destruct H as [H H3]. apply andb_prop in H. destruct H as [H1 H2].
  apply eqb_prop in H1. apply eqb_prop in H2. apply eqb_prop in H3. now subst.
Qed.

Lemma inv2_sound f f' : inv2_ok f f' = true -> forall xc zc xt zt r,
  let '(a, b, c, d, e) := f xc zc xt zt r in f' a b c d e = (xc, zc, xt, zt, r).
Proof.
  unfold inv2_ok. intros H xc zc xt zt r.
  rewrite forallb_forall in H. specialize (H xc (in_bools xc)).
  rewrite forallb_forall in H. specialize (H zc (in_bools zc)).
  rewrite forallb_forall in H. specialize (H xt (in_bools xt)).
  rewrite forallb_forall in H. specialize (H zt (in_bools zt)).
  rewrite forallb_forall in H. specialize (H r (in_bools r)).
  destruct (f xc zc xt zt r) as [[[[a b] c] d] e]. destruct (f' a b c d e) as [[[[a' b'] c'] d'] e'].
  apply andb_prop in H. destruct H as [H H5]. apply andb_prop in H. destruct H as [H H4].
  apply andb_prop in H. destruct H as [H H3]. apply andb_prop in H. destruct H as [H1 H2].
  apply eqb_prop in H1. apply eqb_prop in H2. apply eqb_prop in H3. apply eqb_prop in H4. apply eqb_prop in H5.
  now subst.
Qed.

Lemma row_app1_inv n f f' q w : inv1_ok f f' = true -> (q < n)%nat -> row_wf n w ->
  row_app1 f' q (row_app1 f q w) = w.
Proof.
  intros Hi Hq [Hx Hz]. destruct w as [[xs zs] r]. cbn [fst snd] in *.
  pose proof (inv1_sound f f' Hi (bit q xs) (bit q zs) r) as HS.
  unfold row_app1. destruct (f (bit q xs) (bit q zs) r) as [[x' z'] r']. cbn [fst snd] in HS.
  rewrite !bit_upd_same by lia. rewrite HS. rewrite !upd_upd, !upd_same. reflexivity.
Qed.

Lemma row_app2_inv n f f' c t w : inv2_ok f f' = true -> (c < n)%nat -> (t < n)%nat -> c <> t -> row_wf n w ->
  row_app2 f' c t (row_app2 f c t w) = w.
Proof.
  intros Hi Hc Ht Hct [Hx Hz]. destruct w as [[xs zs] r]. cbn [fst snd] in *.
  pose proof (inv2_sound f f' Hi (bit c xs) (bit c zs) (bit t xs) (bit t zs) r) as HS.
  unfold row_app2. destruct (f (bit c xs) (bit c zs) (bit t xs) (bit t zs) r) as [[[[a b] c'] d] e].
  rewrite !(bit_upd_other t c) by congruence.
  rewrite !bit_upd_same by (rewrite ?length_upd; lia).
  rewrite HS.
  rewrite !(upd2_absorb c t) by assumption.
  rewrite (upd_same c xs), (upd_same c zs), (upd_same t xs), (upd_same t zs). reflexivity.
Qed.

Definition agate_valid (n : nat) (g : agate) : Prop := op_valid n (agate_op g) = true.

Lemma adagger_row n g w : agate_valid n g -> row_wf n w ->
  row_op (agate_op (adagger g)) (row_op (agate_op g) w) = w.
Proof.
  intros Hv Hw. unfold agate_valid in Hv.
  destruct g; cbn [agate_op adagger row_op op_valid] in *;
    try (apply Nat.ltb_lt in Hv; apply (row_app1_inv n); auto; vm_compute; reflexivity).
  all: apply andb_prop in Hv; destruct Hv as [Hv Hne]; apply andb_prop in Hv; destruct Hv as [Hc Ht];
       apply Nat.ltb_lt in Hc; apply Nat.ltb_lt in Ht; apply negb_true_iff in Hne; apply Nat.eqb_neq in Hne;
       apply (row_app2_inv n); auto; vm_compute; reflexivity.
Qed.

Lemma adagger_valid n g : agate_valid n g -> agate_valid n (adagger g).
Proof. unfold agate_valid. destruct g; cbn; auto. Qed.

Lemma row_wf_agate n g w : row_wf n w -> row_wf n (row_op (agate_op g) w).
Proof. intros H. destruct g; cbn [agate_op row_op]; auto using row_wf_app1, row_wf_app2. Qed.

Definition rows_wf (n : nat) (T : tableau) : Prop := forall w, In w T -> row_wf n w.

Lemma rows_wf_tab_op n g T : rows_wf n T -> rows_wf n (tab_op (agate_op g) T).
Proof.
  intros H w Hw. unfold tab_op in Hw. apply in_map_iff in Hw. destruct Hw as [w0 [<- H0]].
  apply row_wf_agate. now apply H.
Qed.

Lemma run_agates_app c1 c2 T : run_agates (c1 ++ c2) T = run_agates c2 (run_agates c1 T).
Proof. unfold run_agates, exec. now rewrite map_app, fold_left_app. Qed.

Lemma rows_wf_run n c : forall T, rows_wf n T -> rows_wf n (run_agates c T).
Proof.
  induction c as [|g c IH]; intros T H; [exact H|].
  change (run_agates (g :: c) T) with (run_agates c (tab_op (agate_op g) T)). apply IH. now apply rows_wf_tab_op.
Qed.

Theorem ainvert_undoes n c : forall T, Forall (agate_valid n) c -> rows_wf n T ->
  run_agates (ainvert c) (run_agates c T) = T.
Proof.
  induction c as [|g c IH]; intros T Hv Hw; [reflexivity|].
  inversion Hv; subst.
  change (run_agates (g :: c) T) with (run_agates c (tab_op (agate_op g) T)).
  unfold ainvert. cbn [map rev]. rewrite run_agates_app. fold (ainvert c).
  rewrite IH by (auto using rows_wf_tab_op).
  unfold run_agates, exec. cbn [map fold_left]. unfold tab_op. rewrite map_map.
  rewrite <- (map_id T) at 2. apply map_ext_in. intros w Hin. apply (adagger_row n); auto.
Qed.

(* ---------------------------------------------------------------- 2. bits of a row after an operation *)
Definition bx (w : row) (j : nat) : bool := bit j (rx w).
Definition bz (w : row) (j : nat) : bool := bit j (rz w).

Lemma bits_app1 n f q w j : row_wf n w -> (q < n)%nat ->
  bx (row_app1 f q w) j = (if (j =? q)%nat then fst (fst (f (bx w q) (bz w q) (rr w))) else bx w j)
  /\ bz (row_app1 f q w) j = (if (j =? q)%nat then snd (fst (f (bx w q) (bz w q) (rr w))) else bz w j)
  /\ rr (row_app1 f q w) = snd (f (bx w q) (bz w q) (rr w)).
Proof.
  intros [Hx Hz] Hq. destruct w as [[xs zs] r]. unfold bx, bz, rx, rz, rr, row_app1 in *. cbn [fst snd] in *.
  destruct (f (bit q xs) (bit q zs) r) as [[x' z'] r']. cbn [fst snd].
  destruct (j =? q)%nat eqn:E; [apply Nat.eqb_eq in E; subst j | apply Nat.eqb_neq in E].
  - rewrite !bit_upd_same by lia. auto.
  - rewrite !bit_upd_other by congruence. auto.
Qed.

Lemma bits_app2 n f c t w j : row_wf n w -> (c < n)%nat -> (t < n)%nat -> c <> t ->
  let o := f (bx w c) (bz w c) (bx w t) (bz w t) (rr w) in
  bx (row_app2 f c t w) j = (if (j =? t)%nat then snd (fst (fst o)) else if (j =? c)%nat then fst (fst (fst (fst o))) else bx w j)
  /\ bz (row_app2 f c t w) j = (if (j =? t)%nat then snd (fst o) else if (j =? c)%nat then snd (fst (fst (fst o))) else bz w j)
  /\ rr (row_app2 f c t w) = snd o.
Proof.
  intros [Hx Hz] Hc Ht Hct. destruct w as [[xs zs] r]. unfold bx, bz, rx, rz, rr, row_app2 in *. cbn [fst snd] in *.
  destruct (f (bit c xs) (bit c zs) (bit t xs) (bit t zs) r) as [[[[a b] c'] d] e]. cbn [fst snd].
  destruct (j =? t)%nat eqn:E; [apply Nat.eqb_eq in E; subst j | apply Nat.eqb_neq in E].
  - rewrite !bit_upd_same by (rewrite length_upd; lia). auto.
  - rewrite !(bit_upd_other t j) by congruence.
    destruct (j =? c)%nat eqn:E2; [apply Nat.eqb_eq in E2; subst j | apply Nat.eqb_neq in E2].
    + rewrite !bit_upd_same by lia. auto.
    + rewrite !bit_upd_other by congruence. auto.
Qed.

(* the five gates of the sweeps, on one row *)
Lemma bits_H n q w j : row_wf n w -> (q < n)%nat ->
  bx (row_op (agate_op (AH q)) w) j = (if (j =? q)%nat then bz w q else bx w j)
  /\ bz (row_op (agate_op (AH q)) w) j = (if (j =? q)%nat then bx w q else bz w j).
Proof. intros Hw Hq. cbn [agate_op row_op]. destruct (bits_app1 n m_H q w j Hw Hq) as [A [B _]]. now rewrite A, B. Qed.

Lemma bits_S n q w j : row_wf n w -> (q < n)%nat ->
  bx (row_op (agate_op (AS q)) w) j = bx w j
  /\ bz (row_op (agate_op (AS q)) w) j = (if (j =? q)%nat then xorb (bz w q) (bx w q) else bz w j).
Proof.
  intros Hw Hq. cbn [agate_op row_op]. destruct (bits_app1 n m_S q w j Hw Hq) as [A [B _]]. rewrite A, B. cbn.
  split; auto. destruct (j =? q)%nat eqn:E; auto. apply Nat.eqb_eq in E. now subst.
Qed.

Lemma bits_CNOT n c t w j : row_wf n w -> (c < n)%nat -> (t < n)%nat -> c <> t ->
  bx (row_op (agate_op (ACNOT c t)) w) j = (if (j =? t)%nat then xorb (bx w t) (bx w c) else bx w j)
  /\ bz (row_op (agate_op (ACNOT c t)) w) j = (if (j =? c)%nat then xorb (bz w c) (bz w t) else bz w j).
Proof.
  intros Hw Hc Ht Hct. cbn [agate_op row_op]. destruct (bits_app2 n m_CNOT c t w j Hw Hc Ht Hct) as [A [B _]].
  rewrite A, B. cbn. split.
  - destruct (j =? t)%nat; auto. destruct (j =? c)%nat eqn:E; auto. apply Nat.eqb_eq in E. now subst.
  - destruct (j =? t)%nat eqn:E; [apply Nat.eqb_eq in E; subst j|]; auto.
    replace (t =? c)%nat with false by (symmetry; apply Nat.eqb_neq; congruence). reflexivity.
Qed.

Lemma bits_SWAP n a b w j : row_wf n w -> (a < n)%nat -> (b < n)%nat -> a <> b ->
  bx (row_op (agate_op (ASWAP a b)) w) j = (if (j =? b)%nat then bx w a else if (j =? a)%nat then bx w b else bx w j)
  /\ bz (row_op (agate_op (ASWAP a b)) w) j = (if (j =? b)%nat then bz w a else if (j =? a)%nat then bz w b else bz w j).
Proof.
  intros Hw Ha Hb Hab. cbn [agate_op row_op]. destruct (bits_app2 n m_SWAP a b w j Hw Ha Hb Hab) as [A [B _]].
  now rewrite A, B.
Qed.

Lemma bits_Z n q w j : row_wf n w -> (q < n)%nat ->
  bx (row_op (agate_op (AZ q)) w) j = bx w j /\ bz (row_op (agate_op (AZ q)) w) j = bz w j
  /\ rr (row_op (agate_op (AZ q)) w) = xorb (rr w) (bx w q).
Proof.
  intros Hw Hq. cbn [agate_op row_op]. destruct (bits_app1 n m_Z q w j Hw Hq) as [A [B C]]. rewrite A, B, C. cbn.
  repeat split; auto; destruct (j =? q)%nat eqn:E; auto; apply Nat.eqb_eq in E; now subst.
Qed.

Lemma bits_X n q w j : row_wf n w -> (q < n)%nat ->
  bx (row_op (agate_op (AX q)) w) j = bx w j /\ bz (row_op (agate_op (AX q)) w) j = bz w j
  /\ rr (row_op (agate_op (AX q)) w) = xorb (rr w) (bz w q).
Proof.
  intros Hw Hq. cbn [agate_op row_op]. destruct (bits_app1 n m_X q w j Hw Hq) as [A [B C]]. rewrite A, B, C. cbn.
  repeat split; auto; destruct (j =? q)%nat eqn:E; auto; apply Nat.eqb_eq in E; now subst.
Qed.

(* ---------------------------------------------------------------- 3. the state of the algorithm *)
Definition isX (n k : nat) (w : row) : Prop := forall j, (j < n)%nat -> bx w j = (j =? k)%nat /\ bz w j = false.
Definition isZ (n k : nat) (w : row) : Prop := forall j, (j < n)%nat -> bx w j = false /\ bz w j = (j =? k)%nat.
Definition Done (n k : nat) (T : tableau) : Prop :=
  forall j, (j < k)%nat -> isX n j (trow T j) /\ isZ n j (trow T (n + j)).
Definition zero_row (n : nat) : row := (zeros n, zeros n, false).

(* gates the sweeps emit *)
Definition sweep_gate (g : agate) : bool :=
  match g with AH _ | AS _ | ACNOT _ _ | ASWAP _ _ | AZ _ | AX _ => true | _ => false end.
Definition gate_qubits (g : agate) : list nat :=
  match g with
  | AH q | AS q | ASDG q | AX q | AY q | AZ q => [q]
  | ACNOT c t => [c; t] | ASWAP a b => [a; b]
  end.

Record St (n k : nat) (T0 : tableau) (st : astate) : Prop := mkSt {
  st_inv : Inv n (fst st);
  st_done : Done n k (fst st);
  st_run : fst st = run_agates (rev (snd st)) T0;
  st_valid : Forall (agate_valid n) (snd st);
  st_scr : trow (fst st) (2 * n) = zero_row n }.

Lemma sweep_gate_symp g : sweep_gate g = true -> op_symp (agate_op g) = true.
Proof. destruct g; cbn; intros H; try discriminate; vm_compute; reflexivity. Qed.

Lemma valid1 n q : (q < n)%nat -> forall g, g = AH q \/ g = AS q \/ g = AZ q \/ g = AX q -> agate_valid n g.
Proof. intros Hq g [-> | [-> | [-> | ->]]]; unfold agate_valid; cbn; now apply Nat.ltb_lt. Qed.
Lemma valid2 n c t : (c < n)%nat -> (t < n)%nat -> c <> t -> agate_valid n (ACNOT c t) /\ agate_valid n (ASWAP c t).
Proof.
  intros Hc Ht Hct. unfold agate_valid, agate_op, op_valid.
  rewrite (proj2 (Nat.ltb_lt c n) Hc), (proj2 (Nat.ltb_lt t n) Ht), (proj2 (Nat.eqb_neq c t) Hct). split; reflexivity.
Qed.

Lemma valid_qubits n g : agate_valid n g -> forall q, In q (gate_qubits g) -> (q < n)%nat.
Proof.
  unfold agate_valid. destruct g; cbn; intros H q' Hq;
    try (destruct Hq as [<-|[]]; now apply Nat.ltb_lt).
  all: apply andb_prop in H; destruct H as [H _]; apply andb_prop in H; destruct H as [H1 H2];
       apply Nat.ltb_lt in H1; apply Nat.ltb_lt in H2; destruct Hq as [<-|[<-|[]]]; assumption.
Qed.

Lemma valid_distinct n c t : agate_valid n (ACNOT c t) \/ agate_valid n (ASWAP c t) -> (c < n)%nat /\ (t < n)%nat /\ c <> t.
Proof.
  unfold agate_valid. cbn. intros [H|H]; apply andb_prop in H; destruct H as [H Hne]; apply andb_prop in H;
    destruct H as [H1 H2]; apply Nat.ltb_lt in H1; apply Nat.ltb_lt in H2; apply negb_true_iff in Hne;
    apply Nat.eqb_neq in Hne; auto.
Qed.

(* a sweep gate leaves all x/z bits of a row unchanged if the row is zero on the qubits the gate touches *)
Lemma bits_untouched n g w : sweep_gate g = true -> agate_valid n g -> row_wf n w ->
  (forall q, In q (gate_qubits g) -> bx w q = false /\ bz w q = false) ->
  forall j, bx (row_op (agate_op g) w) j = bx w j /\ bz (row_op (agate_op g) w) j = bz w j.
Proof.
  intros Hs Hv Hw H0 j'.
  destruct g; try discriminate; cbn [gate_qubits] in H0.
  - assert (Hq : (q < n)%nat) by (apply (valid_qubits n _ Hv); now left).
    destruct (H0 q (or_introl eq_refl)) as [X0 Z0].
    destruct (bits_H n q w j' Hw Hq) as [E1 E2]. rewrite E1, E2.
    destruct (j' =? q)%nat eqn:E; [apply Nat.eqb_eq in E; subst j'; now rewrite X0, Z0 | auto].
  - assert (Hq : (q < n)%nat) by (apply (valid_qubits n _ Hv); now left).
    destruct (H0 q (or_introl eq_refl)) as [X0 Z0].
    destruct (bits_S n q w j' Hw Hq) as [E1 E2]. rewrite E1, E2. split; auto.
    destruct (j' =? q)%nat eqn:E; [apply Nat.eqb_eq in E; subst j'; now rewrite X0, Z0 | auto].
  - assert (Hq : (q < n)%nat) by (apply (valid_qubits n _ Hv); now left).
    destruct (bits_X n q w j' Hw Hq) as [E1 [E2 _]]. now rewrite E1, E2.
  - assert (Hq : (q < n)%nat) by (apply (valid_qubits n _ Hv); now left).
    destruct (bits_Z n q w j' Hw Hq) as [E1 [E2 _]]. now rewrite E1, E2.
  - destruct (valid_distinct n c t (or_introl Hv)) as [Hc [Ht Hct]].
    destruct (H0 c (or_introl eq_refl)) as [Xc Zc]. destruct (H0 t (or_intror (or_introl eq_refl))) as [Xt Zt].
    destruct (bits_CNOT n c t w j' Hw Hc Ht Hct) as [E1 E2]. rewrite E1, E2. split.
    + destruct (j' =? t)%nat eqn:E; [apply Nat.eqb_eq in E; subst j'; now rewrite Xt, Xc | auto].
    + destruct (j' =? c)%nat eqn:E; [apply Nat.eqb_eq in E; subst j'; now rewrite Zt, Zc | auto].
  - destruct (valid_distinct n a b (or_intror Hv)) as [Ha [Hb Hab]].
    destruct (H0 a (or_introl eq_refl)) as [Xa Za]. destruct (H0 b (or_intror (or_introl eq_refl))) as [Xb Zb].
    destruct (bits_SWAP n a b w j' Hw Ha Hb Hab) as [E1 E2]. rewrite E1, E2.
    destruct (j' =? b)%nat eqn:E; [apply Nat.eqb_eq in E; subst j'; now rewrite Xa, Za, Xb, Zb|].
    destruct (j' =? a)%nat eqn:E3; [apply Nat.eqb_eq in E3; subst j'; now rewrite Xa, Za, Xb, Zb | auto].
Qed.

Lemma fix_isX n j g w : sweep_gate g = true -> agate_valid n g -> ~ In j (gate_qubits g) -> row_wf n w ->
  isX n j w -> isX n j (row_op (agate_op g) w).
Proof.
  intros Hs Hv Hj Hw HX j' Hj'.
  destruct (bits_untouched n g w Hs Hv Hw) with (j := j') as [E1 E2].
  - intros q Hq. destruct (HX q (valid_qubits n g Hv q Hq)) as [A B]. split; auto.
    rewrite A. apply Nat.eqb_neq. intros ->. contradiction.
  - rewrite E1, E2. now apply HX.
Qed.

Lemma fix_isZ n j g w : sweep_gate g = true -> agate_valid n g -> ~ In j (gate_qubits g) -> row_wf n w ->
  isZ n j w -> isZ n j (row_op (agate_op g) w).
Proof.
  intros Hs Hv Hj Hw HX j' Hj'.
  destruct (bits_untouched n g w Hs Hv Hw) with (j := j') as [E1 E2].
  - intros q Hq. destruct (HX q (valid_qubits n g Hv q Hq)) as [A B]. split; auto.
    rewrite B. apply Nat.eqb_neq. intros ->. contradiction.
  - rewrite E1, E2. now apply HX.
Qed.

Lemma bit_zeros' n j : bit j (zeros n) = false.
Proof. unfold bit, zeros. revert j. induction n as [|n IH]; intros [|j]; cbn; auto. Qed.
Lemma upd_zeros q n : upd q false (zeros n) = zeros n.
Proof. unfold zeros. revert q. induction n as [|n IH]; intros [|q]; cbn; auto. now rewrite IH. Qed.

Lemma row_op_zero_row n g : sweep_gate g = true -> row_op (agate_op g) (zero_row n) = zero_row n.
Proof.
  intros Hs. unfold zero_row.
  destruct g; try discriminate; cbn [agate_op row_op row_app1 row_app2];
    rewrite ?bit_zeros'; cbn; rewrite ?upd_zeros; reflexivity.
Qed.

(* ---------------------------------------------------------------- 4. emitting a gate; what Inv + Done imply *)
Lemma trow_emit g (st : astate) i : (i < @length row (@fst tableau (list agate) st))%nat ->
  trow (fst (emit g st)) i = row_op (agate_op g) (trow (@fst tableau (list agate) st) i).
Proof. intros H. unfold emit, tab_op. cbn [fst]. now apply trow_map. Qed.

Ltac tlia := unfold tableau in *; lia.

Lemma gate_has_qubit g : exists q, In q (gate_qubits g).
Proof. destruct g; eexists; cbn; left; reflexivity. Qed.

Lemma emit_St n k T0 g st :
  St n k T0 st -> sweep_gate g = true -> agate_valid n g -> (forall q, In q (gate_qubits g) -> (k <= q)%nat) ->
  St n k T0 (emit g st).
Proof.
  intros [HI HD HR HV HS] Hs Hv Hge. pose proof HI as [HL [Hwf Hac]].
  constructor.
  - unfold emit. cbn [fst]. apply Inv_tab_op; auto. now apply sweep_gate_symp.
  - intros j Hj. destruct (HD j Hj) as [DX DZ].
    assert (Hnin : ~ In j (gate_qubits g)) by (intros Hin; apply Hge in Hin; lia).
    assert (Hjn : (j < n)%nat).
    { destruct (Nat.lt_ge_cases j n); auto. exfalso.
      destruct (gate_has_qubit g) as [q Hq].
      pose proof (valid_qubits n g Hv q Hq). pose proof (Hge q Hq). lia. }
    rewrite !trow_emit by tlia.
    split; [apply fix_isX | apply fix_isZ]; auto; apply Hwf; lia.
  - unfold emit. cbn [fst snd rev]. rewrite run_agates_app, <- HR. reflexivity.
  - unfold emit. cbn [snd]. now constructor.
  - rewrite trow_emit by tlia. rewrite HS. now apply row_op_zero_row.
Qed.

Lemma sympl_swap_xz : forall xa za xb zb, sympl xa za xb zb = sympl za xa zb xb.
Proof.
  induction xa as [|a xa IH]; intros [|b za] [|c xb] [|d zb]; cbn; auto.
  rewrite IH. f_equal. apply xorb_comm.
Qed.

Lemma bits_to_list n l (f : nat -> bool) : length l = n -> (forall i, (i < n)%nat -> bit i l = f i) ->
  l = map f (seq 0 n).
Proof.
  intros Hl H. apply (nth_ext _ _ false (f 0%nat)).
  - now rewrite map_length, seq_length.
  - intros i Hi. rewrite Hl in Hi. rewrite (nth_indep (map f (seq 0 n)) (f 0%nat) false) by (now rewrite map_length, seq_length).
    rewrite nth_map_seq by assumption. now apply H.
Qed.

Lemma zeros_as_map n : zeros n = map (fun _ => false) (seq 0 n).
Proof. apply bits_to_list; [apply length_zeros|]. intros. apply bit_zeros. Qed.

Lemma isZ_xz n j w : row_wf n w -> isZ n j w -> rx w = zeros n /\ rz w = unit_vec n j.
Proof.
  intros [Hx Hz] H. split.
  - rewrite zeros_as_map. apply bits_to_list; auto. intros i Hi. now apply H.
  - unfold unit_vec. apply bits_to_list; auto. intros i Hi. destruct (H i Hi) as [_ B]. unfold bz in B. rewrite B. apply Nat.eqb_sym.
Qed.

Lemma isX_xz n j w : row_wf n w -> isX n j w -> rx w = unit_vec n j /\ rz w = zeros n.
Proof.
  intros [Hx Hz] H. split.
  - unfold unit_vec. apply bits_to_list; auto. intros i Hi. destruct (H i Hi) as [A _]. unfold bx in A. rewrite A. apply Nat.eqb_sym.
  - rewrite zeros_as_map. apply bits_to_list; auto. intros i Hi. now apply H.
Qed.

Lemma ac_isZ n j a w : (j < n)%nat -> row_wf n a -> row_wf n w -> isZ n j w -> anticommute a w = bx a j.
Proof.
  intros Hj Ha Hw H. destruct (isZ_xz n j w Hw H) as [E1 E2].
  transitivity (anticommute a (zq_row n j false)); [unfold anticommute, zq_row, rx, rz in *; cbn [fst snd]; now rewrite E1, E2|].
  now apply ac_zq.
Qed.

Lemma ac_isX n j a w : (j < n)%nat -> row_wf n a -> row_wf n w -> isX n j w -> anticommute a w = bz a j.
Proof.
  intros Hj Ha Hw H. destruct (isX_xz n j w Hw H) as [E1 E2]. destruct Ha as [A1 A2].
  unfold anticommute, bz, rx, rz in *. rewrite E1, E2. rewrite sympl_swap_xz.
  unfold zeros, unit_vec, bit. rewrite sympl_zrow by assumption.
  replace (0 <=? j)%nat with true by reflexivity.
  replace (j <? 0 + n)%nat with true by (symmetry; apply Nat.ltb_lt; lia). now rewrite Nat.sub_0_r.
Qed.

(* every row other than D_j, S_j is zero in column j once D_j = X_j and S_j = Z_j *)
Lemma cols_zero n k T j i : Inv n T -> Done n k T -> (k <= n)%nat -> (j < k)%nat -> (i < 2 * n)%nat -> i <> j -> i <> (n + j)%nat ->
  bx (trow T i) j = false /\ bz (trow T i) j = false.
Proof.
  intros [HL [Hwf Hac]] HD Hk Hj Hi H1 H2. destruct (HD j Hj) as [DX DZ].
  split.
  - rewrite <- (ac_isZ n j (trow T i) (trow T (n + j))) by (auto; try apply Hwf; lia).
    rewrite Hac by lia. unfold pairing. apply orb_false_iff. split; apply Nat.eqb_neq; lia.
  - rewrite <- (ac_isX n j (trow T i) (trow T j)) by (auto; try apply Hwf; lia).
    rewrite Hac by lia. unfold pairing. apply orb_false_iff. split; apply Nat.eqb_neq; lia.
Qed.

(* ---------------------------------------------------------------- 5. the sweeps *)
Lemma sweep_ind (P : nat -> astate -> Prop) (test : astate -> nat -> bool) (g : nat -> agate) : forall len lo st,
  P lo st ->
  (forall l s, (lo <= l < lo + len)%nat -> P l s -> P (S l) (if test s l then emit (g l) s else s)) ->
  P (lo + len)%nat (sweep test g lo len st).
Proof.
  unfold sweep. induction len as [|len IH]; intros lo st H0 Hstep; cbn [seq fold_left].
  - now rewrite Nat.add_0_r.
  - replace (lo + S len)%nat with (S lo + len)%nat by lia. apply IH.
    + apply Hstep; auto. lia.
    + intros l s Hl. apply Hstep. lia.
Qed.

Lemma existsb_false {A} (f : A -> bool) l : existsb f l = false -> forall x, In x l -> f x = false.
Proof.
  intros H x Hx. destruct (f x) eqn:E; auto.
  assert (existsb f l = true) by (apply existsb_exists; exists x; auto). congruence.
Qed.

Lemma any_from_false test lo len : any_from test lo len = false -> forall j, (lo <= j < lo + len)%nat -> test j = false.
Proof. intros H j Hj. apply (existsb_false test _ H). apply in_seq. lia. Qed.

Definition R (st : astate) (i : nat) : row := trow (@fst tableau (list agate) st) i.

Lemma R_emit n k T0 g st i : St n k T0 st -> (i < 2 * n + 1)%nat -> R (emit g st) i = row_op (agate_op g) (R st i).
Proof. intros [[HL _] _ _ _ _] Hi. unfold R. apply trow_emit. tlia. Qed.

Lemma R_wf n k T0 st i : St n k T0 st -> (i < 2 * n)%nat -> row_wf n (R st i).
Proof. intros [[_ [Hwf _]] _ _ _ _] Hi. now apply Hwf. Qed.

(* --- A: _set_qubit_x_to_true *)
Lemma all_zero_commutes n a b : row_wf n a -> (forall j, (j < n)%nat -> bx a j = false /\ bz a j = false) ->
  anticommute a b = false.
Proof.
  intros [Hx Hz] H. unfold anticommute.
  assert (E1 : rx a = zeros n) by (rewrite zeros_as_map; apply bits_to_list; auto; intros i Hi; now apply H).
  assert (E2 : rz a = zeros n) by (rewrite zeros_as_map; apply bits_to_list; auto; intros i Hi; now apply H).
  rewrite E1, E2. unfold zeros. apply sympl_zeros.
Qed.

Lemma stageA n k T0 st : St n k T0 st -> (k < n)%nat ->
  St n k T0 (set_qubit_x_to_true n k st) /\ bx (R (set_qubit_x_to_true n k st) k) k = true.
Proof.
  intros HS Hk. unfold set_qubit_x_to_true, dx, dz, first_k.
  fold (R st k). change (bit k (rx (R st k))) with (bx (R st k) k).
  destruct (bx (R st k) k) eqn:E0; [auto|].
  assert (Wk : row_wf n (R st k)) by (apply (R_wf n k T0); auto; lia).
  destruct (find_from (fun k0 => bit k0 (rx (R st k))) (S k) (n - S k)) as [l|] eqn:F1.
  - apply find_from_spec in F1. destruct F1 as [Hl Hb].
    destruct (valid2 n l k ltac:(lia) Hk ltac:(lia)) as [_ Vs].
    split.
    + apply emit_St; auto. intros q [<-|[<-|[]]]; lia.
    + rewrite (R_emit n k T0) by (auto; lia).
      destruct (bits_SWAP n l k (R st k) k Wk ltac:(lia) Hk ltac:(lia)) as [A _]. rewrite A. now rewrite Nat.eqb_refl.
  - destruct (find_from (fun k0 => bit k0 (rz (R st k))) k (n - k)) as [l|] eqn:F2.
    + apply find_from_spec in F2. destruct F2 as [Hl Hb].
      assert (VH : agate_valid n (AH l)) by (apply (valid1 n l); [lia|auto]).
      assert (S1 : St n k T0 (emit (AH l) st)) by (apply emit_St; auto; intros q [<-|[]]; lia).
      assert (B1 : bx (R (emit (AH l) st) k) l = true).
      { rewrite (R_emit n k T0) by (auto; lia).
        destruct (bits_H n l (R st k) l Wk ltac:(lia)) as [A _]. rewrite A, Nat.eqb_refl. exact Hb. }
      destruct (l =? k)%nat eqn:Elk; [apply Nat.eqb_eq in Elk; subst l; auto|].
      apply Nat.eqb_neq in Elk.
      destruct (valid2 n l k ltac:(lia) Hk Elk) as [_ Vs].
      split.
      * apply emit_St; auto. intros q [<-|[<-|[]]]; lia.
      * rewrite (R_emit n k T0) by (auto; lia).
        assert (W1 : row_wf n (R (emit (AH l) st) k)) by (apply (R_wf n k T0); auto; lia).
        destruct (bits_SWAP n l k (R (emit (AH l) st) k) k W1 ltac:(lia) Hk Elk) as [A _]. rewrite A. now rewrite Nat.eqb_refl.
    + (* no pivot: the destabiliser would be the identity, but it anticommutes with its stabiliser *)
      exfalso. destruct HS as [HI HD HR HV HSc]. pose proof HI as [HL [Hwf Hac]].
      assert (Hz : anticommute (R st k) (R st (n + k)) = false).
      { apply (all_zero_commutes n); auto. intros j Hj.
        destruct (Nat.lt_ge_cases j k) as [Hjk|Hjk].
        - apply (cols_zero n k _ j k HI HD); lia.
        - split.
          + destruct (Nat.eq_dec j k) as [->|Hne]; auto.
            apply (find_from_none _ _ _ F1 j). lia.
          + apply (find_from_none _ _ _ F2 j). lia. }
      unfold R in Hz. rewrite Hac in Hz by lia. unfold pairing in Hz.
      replace (n + k =? k + n)%nat with true in Hz by (symmetry; apply Nat.eqb_eq; lia). discriminate.
Qed.

(* --- B: _set_row_x_to_zero turns the destabiliser k into +-X_k *)
Lemma stageB n k T0 st : St n k T0 st -> (k < n)%nat -> bx (R st k) k = true ->
  St n k T0 (set_row_x_to_zero n k st) /\ isX n k (R (set_row_x_to_zero n k st) k).
Proof.
  intros HS Hk Hx. unfold set_row_x_to_zero.
  (* first loop: clear x_l, l > k *)
  set (st1 := sweep (fun s l => dx s k l) (fun l => ACNOT k l) (S k) (n - S k) st).
  set (Pr1 := fun (l : nat) (s : astate) => St n k T0 s /\ bx (R s k) k = true /\ forall j, (k < j < l)%nat -> bx (R s k) j = false).
  assert (P1 : Pr1 (S k + (n - S k))%nat st1).
  { unfold st1. apply sweep_ind; unfold Pr1.
    - split; auto. split; auto. intros j Hj. lia.
    - intros l s Hl [S0 [X0 Z0]]. unfold dx. fold (R s k). change (bit l (rx (R s k))) with (bx (R s k) l).
      assert (W : row_wf n (R s k)) by (apply (R_wf n k T0); auto; lia).
      destruct (bx (R s k) l) eqn:El.
      + destruct (valid2 n k l Hk ltac:(lia) ltac:(lia)) as [Vc _].
        split; [apply emit_St; auto; intros q [<-|[<-|[]]]; lia|].
        rewrite (R_emit n k T0) by (auto; lia).
        split.
        * destruct (bits_CNOT n k l (R s k) k W Hk ltac:(lia) ltac:(lia)) as [A _]. rewrite A.
          replace (k =? l)%nat with false by (symmetry; apply Nat.eqb_neq; lia). exact X0.
        * intros j Hj. destruct (bits_CNOT n k l (R s k) j W Hk ltac:(lia) ltac:(lia)) as [A _]. rewrite A.
          destruct (j =? l)%nat eqn:E; [apply Nat.eqb_eq in E; subst j; now rewrite El, X0 | apply Nat.eqb_neq in E; apply Z0; lia].
      + split; auto. split; auto. intros j Hj. destruct (Nat.eq_dec j l) as [->|Hne]; auto. apply Z0. lia. }
  unfold Pr1 in P1. replace (S k + (n - S k))%nat with n in P1 by lia.
  destruct P1 as [S1 [X1 Z1]].
  assert (W1 : row_wf n (R st1 k)) by (apply (R_wf n k T0); auto; lia).
  (* columns j < k are zero in any case *)
  assert (Low : forall s, St n k T0 s -> forall j, (j < k)%nat -> bx (R s k) j = false /\ bz (R s k) j = false).
  { intros s [HI HD _ _ _] j Hj. apply (cols_zero n k _ j k HI HD); lia. }
  destruct (any_from (dz st1 k) k (n - k)) eqn:Any.
  - (* some z bit: make z_k = 1, clear the others, clear z_k *)
    cbv zeta.
    set (st2 := if dz st1 k k then st1 else emit (AS k) st1).
    assert (VS : agate_valid n (AS k)) by (apply (valid1 n k); auto).
    assert (P2 : St n k T0 st2 /\ (forall j, (k <= j < n)%nat -> bx (R st2 k) j = (j =? k)%nat) /\ bz (R st2 k) k = true).
    { unfold st2, dz. fold (R st1 k). change (bit k (rz (R st1 k))) with (bz (R st1 k) k).
      destruct (bz (R st1 k) k) eqn:Ez.
      - split; auto. split; auto. intros j Hj. destruct (j =? k)%nat eqn:E; [apply Nat.eqb_eq in E; now subst | apply Nat.eqb_neq in E; apply Z1; lia].
      - split; [apply emit_St; auto; intros q [<-|[]]; lia|].
        rewrite (R_emit n k T0) by (auto; lia).
        split.
        + intros j Hj. destruct (bits_S n k (R st1 k) j W1 Hk) as [A _]. rewrite A.
          destruct (j =? k)%nat eqn:E; [apply Nat.eqb_eq in E; now subst | apply Nat.eqb_neq in E; apply Z1; lia].
        + destruct (bits_S n k (R st1 k) k W1 Hk) as [_ B]. rewrite B, Nat.eqb_refl, Ez, X1. reflexivity. }
    destruct P2 as [S2 [X2 Zk2]].
    set (st3 := sweep (fun s l => dz s k l) (fun l => ACNOT l k) (S k) (n - S k) st2).
    set (Pr3 := fun (l : nat) (s : astate) => St n k T0 s /\ (forall j, (k <= j < n)%nat -> bx (R s k) j = (j =? k)%nat) /\ bz (R s k) k = true
                                   /\ forall j, (k < j < l)%nat -> bz (R s k) j = false).
    assert (P3 : Pr3 (S k + (n - S k))%nat st3).
    { unfold st3. apply sweep_ind; unfold Pr3.
      - split; auto. split; auto. split; auto. intros j Hj. lia.
      - intros l s Hl [S0 [X0 [Zk0 Z0]]]. unfold dz. fold (R s k). change (bit l (rz (R s k))) with (bz (R s k) l).
        assert (W : row_wf n (R s k)) by (apply (R_wf n k T0); auto; lia).
        destruct (bz (R s k) l) eqn:El.
        + destruct (valid2 n l k ltac:(lia) Hk ltac:(lia)) as [Vc _].
          split; [apply emit_St; auto; intros q [<-|[<-|[]]]; lia|].
          rewrite (R_emit n k T0) by (auto; lia).
          split; [|split].
          * intros j Hj. destruct (bits_CNOT n l k (R s k) j W ltac:(lia) Hk ltac:(lia)) as [A _]. rewrite A.
            destruct (j =? k)%nat eqn:E; [apply Nat.eqb_eq in E; subst j|rewrite <- E; apply X0; lia].
            rewrite (X0 k) by lia. rewrite (X0 l) by lia. rewrite Nat.eqb_refl.
            replace (l =? k)%nat with false by (symmetry; apply Nat.eqb_neq; lia). reflexivity.
          * destruct (bits_CNOT n l k (R s k) k W ltac:(lia) Hk ltac:(lia)) as [_ B]. rewrite B.
            replace (k =? l)%nat with false by (symmetry; apply Nat.eqb_neq; lia). exact Zk0.
          * intros j Hj. destruct (bits_CNOT n l k (R s k) j W ltac:(lia) Hk ltac:(lia)) as [_ B]. rewrite B.
            destruct (j =? l)%nat eqn:E; [apply Nat.eqb_eq in E; subst j; now rewrite El, Zk0 | apply Nat.eqb_neq in E; apply Z0; lia].
        + split; auto. split; auto. split; auto. intros j Hj. destruct (Nat.eq_dec j l) as [->|Hne]; auto. apply Z0. lia. }
    unfold Pr3 in P3. replace (S k + (n - S k))%nat with n in P3 by lia.
    destruct P3 as [S3 [X3 [Zk3 Z3]]].
    assert (W3 : row_wf n (R st3 k)) by (apply (R_wf n k T0); auto; lia).
    split; [apply emit_St; auto; intros q [<-|[]]; lia|].
    intros j Hj. rewrite (R_emit n k T0) by (auto; lia).
    destruct (bits_S n k (R st3 k) j W3 Hk) as [A B]. rewrite A, B.
    destruct (Nat.lt_ge_cases j k) as [Hjk|Hjk].
    + destruct (Low st3 S3 j Hjk) as [L1 L2]. rewrite L1.
      replace (j =? k)%nat with false by (symmetry; apply Nat.eqb_neq; lia). auto.
    + rewrite X3 by lia. split; auto.
      destruct (j =? k)%nat eqn:E; [apply Nat.eqb_eq in E; subst j; now rewrite Zk3, X3, Nat.eqb_refl by lia | apply Nat.eqb_neq in E; apply Z3; lia].
  - (* no z bit at all *)
    split; auto. intros j Hj.
    destruct (Nat.lt_ge_cases j k) as [Hjk|Hjk].
    + destruct (Low st1 S1 j Hjk) as [L1 L2]. rewrite L1.
      replace (j =? k)%nat with false by (symmetry; apply Nat.eqb_neq; lia). auto.
    + split.
      * destruct (j =? k)%nat eqn:E; [apply Nat.eqb_eq in E; now subst | apply Nat.eqb_neq in E; apply Z1; lia].
      * apply (any_from_false (dz st1 k) _ _ Any j). lia.
Qed.

(* --- C: _set_row_z_to_zero turns the stabiliser k into +-Z_k and keeps the destabiliser +-X_k *)
Lemma cnot_target_fix_X n k l w : row_wf n w -> (k < n)%nat -> (l < n)%nat -> l <> k ->
  isX n k w -> isX n k (row_op (agate_op (ACNOT l k)) w).
Proof.
  intros Hw Hk Hl Hlk HX j Hj. destruct (bits_CNOT n l k w j Hw Hl Hk Hlk) as [A B]. rewrite A, B.
  destruct (HX k Hk) as [Xk Zk]. destruct (HX l Hl) as [Xl Zl]. destruct (HX j Hj) as [Xj Zj].
  split.
  - destruct (j =? k)%nat eqn:E; auto. rewrite Xk, Xl, Nat.eqb_refl.
    replace (l =? k)%nat with false by (symmetry; now apply Nat.eqb_neq). reflexivity.
  - destruct (j =? l)%nat; auto. now rewrite Zl, Zk.
Qed.

Lemma cnot_control_fix_Z n k l w : row_wf n w -> (k < n)%nat -> (l < n)%nat -> k <> l ->
  isZ n k w -> isZ n k (row_op (agate_op (ACNOT k l)) w).
Proof.
  intros Hw Hk Hl Hkl HZ j Hj. destruct (bits_CNOT n k l w j Hw Hk Hl Hkl) as [A B]. rewrite A, B.
  destruct (HZ k Hk) as [Xk Zk]. destruct (HZ l Hl) as [Xl Zl]. destruct (HZ j Hj) as [Xj Zj].
  split.
  - destruct (j =? l)%nat; auto. now rewrite Xl, Xk.
  - destruct (j =? k)%nat eqn:E; auto. rewrite Zk, Zl, Nat.eqb_refl.
    replace (l =? k)%nat with false by (symmetry; apply Nat.eqb_neq; congruence). reflexivity.
Qed.

Lemma H_X_to_Z n k w : row_wf n w -> (k < n)%nat -> isX n k w -> isZ n k (row_op (agate_op (AH k)) w).
Proof.
  intros Hw Hk HX j Hj. destruct (bits_H n k w j Hw Hk) as [A B]. rewrite A, B.
  destruct (HX k Hk) as [Xk Zk]. destruct (HX j Hj) as [Xj Zj].
  destruct (j =? k)%nat eqn:E; [|auto]. rewrite Zk, Xk, Nat.eqb_refl. auto.
Qed.

Lemma H_Z_to_X n k w : row_wf n w -> (k < n)%nat -> isZ n k w -> isX n k (row_op (agate_op (AH k)) w).
Proof.
  intros Hw Hk HZ j Hj. destruct (bits_H n k w j Hw Hk) as [A B]. rewrite A, B.
  destruct (HZ k Hk) as [Xk Zk]. destruct (HZ j Hj) as [Xj Zj].
  destruct (j =? k)%nat eqn:E; [|auto]. rewrite Zk, Xk, Nat.eqb_refl. auto.
Qed.

Lemma S_fix_Z n k w : row_wf n w -> (k < n)%nat -> isZ n k w -> isZ n k (row_op (agate_op (AS k)) w).
Proof.
  intros Hw Hk HZ j Hj. destruct (bits_S n k w j Hw Hk) as [A B]. rewrite A, B.
  destruct (HZ k Hk) as [Xk Zk]. destruct (HZ j Hj) as [Xj Zj]. split; auto.
  destruct (j =? k)%nat eqn:E; auto. now rewrite Zk, Xk, Nat.eqb_refl.
Qed.

Lemma stageC n k T0 st : St n k T0 st -> (k < n)%nat -> isX n k (R st k) ->
  let st' := set_row_z_to_zero n k st in
  St n k T0 st' /\ isX n k (R st' k) /\ isZ n k (R st' (n + k)).
Proof.
  intros HS Hk HX. unfold set_row_z_to_zero.
  assert (Low : forall s, St n k T0 s -> forall j, (j < k)%nat -> bx (R s (n + k)) j = false /\ bz (R s (n + k)) j = false).
  { intros s [HI HD _ _ _] j Hj. apply (cols_zero n k _ j (n + k) HI HD); lia. }
  (* z_k of the stabiliser is 1: it anticommutes with the destabiliser X_k *)
  assert (Zk0 : bz (R st (n + k)) k = true).
  { destruct HS as [HI HD HR HV HSc]. pose proof HI as [HL [Hwf Hac]].
    rewrite <- (ac_isX n k (R st (n + k)) (R st k)) by (auto; apply Hwf; lia).
    unfold R. rewrite Hac by lia. unfold pairing.
    replace (n + k =? k + n)%nat with true by (symmetry; apply Nat.eqb_eq; lia). now rewrite orb_true_r. }
  (* first block: clear z_l, l > k *)
  set (st1 := if any_from (dz st (n + k)) (S k) (n - S k)
              then sweep (fun s l => dz s (n + k) l) (fun l => ACNOT l k) (S k) (n - S k) st else st).
  assert (P1 : St n k T0 st1 /\ isX n k (R st1 k) /\ bz (R st1 (n + k)) k = true
               /\ forall j, (k < j < n)%nat -> bz (R st1 (n + k)) j = false).
  { unfold st1. destruct (any_from (dz st (n + k)) (S k) (n - S k)) eqn:Any.
    - set (Pr := fun (l : nat) (s : astate) => St n k T0 s /\ isX n k (R s k) /\ bz (R s (n + k)) k = true
                                               /\ forall j, (k < j < l)%nat -> bz (R s (n + k)) j = false).
      assert (P : Pr (S k + (n - S k))%nat (sweep (fun s l => dz s (n + k) l) (fun l => ACNOT l k) (S k) (n - S k) st)).
      { apply sweep_ind; unfold Pr.
        - split; auto. split; auto. split; auto. intros j Hj. lia.
        - intros l s Hl [S0 [X0 [Zk Z0]]]. unfold dz. fold (R s (n + k)).
          change (bit l (rz (R s (n + k)))) with (bz (R s (n + k)) l).
          assert (W : row_wf n (R s (n + k))) by (apply (R_wf n k T0); auto; lia).
          assert (Wd : row_wf n (R s k)) by (apply (R_wf n k T0); auto; lia).
          destruct (bz (R s (n + k)) l) eqn:El.
          + destruct (valid2 n l k ltac:(lia) Hk ltac:(lia)) as [Vc _].
            split; [apply emit_St; auto; intros q [<-|[<-|[]]]; lia|].
            rewrite !(R_emit n k T0) by (auto; lia).
            split; [apply cnot_target_fix_X; auto; lia|]. split.
            * destruct (bits_CNOT n l k (R s (n + k)) k W ltac:(lia) Hk ltac:(lia)) as [_ B]. rewrite B.
              replace (k =? l)%nat with false by (symmetry; apply Nat.eqb_neq; lia). exact Zk.
            * intros j Hj. destruct (bits_CNOT n l k (R s (n + k)) j W ltac:(lia) Hk ltac:(lia)) as [_ B]. rewrite B.
              destruct (j =? l)%nat eqn:E; [apply Nat.eqb_eq in E; subst j; now rewrite El, Zk | apply Nat.eqb_neq in E; apply Z0; lia].
          + split; auto. split; auto. split; auto. intros j Hj. destruct (Nat.eq_dec j l) as [->|Hne]; auto. apply Z0. lia. }
      unfold Pr in P. replace (S k + (n - S k))%nat with n in P by lia. exact P.
    - split; auto. split; auto. split; auto. intros j Hj. apply (any_from_false (dz st (n + k)) _ _ Any j). lia. }
  destruct P1 as [S1 [X1 [Zk1 Z1]]].
  assert (W1 : row_wf n (R st1 (n + k))) by (apply (R_wf n k T0); auto; lia).
  assert (Wd1 : row_wf n (R st1 k)) by (apply (R_wf n k T0); auto; lia).
  cbv zeta. fold st1.
  destruct (any_from (dx st1 (n + k)) k (n - k)) eqn:AnyX.
  - (* H, clear x_l, S if needed, H *)
    assert (VH : agate_valid n (AH k)) by (apply (valid1 n k); auto).
    assert (VS : agate_valid n (AS k)) by (apply (valid1 n k); auto).
    set (st2 := emit (AH k) st1).
    assert (S2 : St n k T0 st2) by (apply emit_St; auto; intros q [<-|[]]; lia).
    assert (D2 : isZ n k (R st2 k)) by (unfold st2; rewrite (R_emit n k T0) by (auto; lia); now apply H_X_to_Z).
    assert (X2 : bx (R st2 (n + k)) k = true).
    { unfold st2. rewrite (R_emit n k T0) by (auto; lia).
      destruct (bits_H n k (R st1 (n + k)) k W1 Hk) as [A _]. now rewrite A, Nat.eqb_refl. }
    assert (Z2 : forall j, (k < j < n)%nat -> bz (R st2 (n + k)) j = false).
    { intros j Hj. unfold st2. rewrite (R_emit n k T0) by (auto; lia).
      destruct (bits_H n k (R st1 (n + k)) j W1 Hk) as [_ B]. rewrite B.
      replace (j =? k)%nat with false by (symmetry; apply Nat.eqb_neq; lia). now apply Z1. }
    set (st3 := sweep (fun s l => dx s (n + k) l) (fun l => ACNOT k l) (S k) (n - S k) st2).
    set (Pr := fun (l : nat) (s : astate) => St n k T0 s /\ isZ n k (R s k) /\ bx (R s (n + k)) k = true
                 /\ (forall j, (k < j < n)%nat -> bz (R s (n + k)) j = false)
                 /\ forall j, (k < j < l)%nat -> bx (R s (n + k)) j = false).
    assert (P3 : Pr (S k + (n - S k))%nat st3).
    { unfold st3. apply sweep_ind; unfold Pr.
      - split; auto. split; auto. split; auto. split; auto. intros j Hj. lia.
      - intros l s Hl [S0 [D0 [Xk [Zs X0]]]]. unfold dx. fold (R s (n + k)).
        change (bit l (rx (R s (n + k)))) with (bx (R s (n + k)) l).
        assert (W : row_wf n (R s (n + k))) by (apply (R_wf n k T0); auto; lia).
        assert (Wd : row_wf n (R s k)) by (apply (R_wf n k T0); auto; lia).
        destruct (bx (R s (n + k)) l) eqn:El.
        + destruct (valid2 n k l Hk ltac:(lia) ltac:(lia)) as [Vc _].
          split; [apply emit_St; auto; intros q [<-|[<-|[]]]; lia|].
          rewrite !(R_emit n k T0) by (auto; lia).
          split; [apply cnot_control_fix_Z; auto; lia|]. split; [|split].
          * destruct (bits_CNOT n k l (R s (n + k)) k W Hk ltac:(lia) ltac:(lia)) as [A _]. rewrite A.
            replace (k =? l)%nat with false by (symmetry; apply Nat.eqb_neq; lia). exact Xk.
          * intros j Hj. destruct (bits_CNOT n k l (R s (n + k)) j W Hk ltac:(lia) ltac:(lia)) as [_ B]. rewrite B.
            replace (j =? k)%nat with false by (symmetry; apply Nat.eqb_neq; lia). now apply Zs.
          * intros j Hj. destruct (bits_CNOT n k l (R s (n + k)) j W Hk ltac:(lia) ltac:(lia)) as [A _]. rewrite A.
            destruct (j =? l)%nat eqn:E; [apply Nat.eqb_eq in E; subst j; now rewrite El, Xk | apply Nat.eqb_neq in E; apply X0; lia].
        + split; auto. split; auto. split; auto. split; auto.
          intros j Hj. destruct (Nat.eq_dec j l) as [->|Hne]; auto. apply X0. lia. }
    unfold Pr in P3. replace (S k + (n - S k))%nat with n in P3 by lia.
    destruct P3 as [S3 [D3 [Xk3 [Zs3 X3]]]].
    assert (W3 : row_wf n (R st3 (n + k))) by (apply (R_wf n k T0); auto; lia).
    assert (Wd3 : row_wf n (R st3 k)) by (apply (R_wf n k T0); auto; lia).
    set (st4 := if dz st3 (n + k) k then emit (AS k) st3 else st3).
    assert (P4 : St n k T0 st4 /\ isZ n k (R st4 k) /\ bx (R st4 (n + k)) k = true /\ bz (R st4 (n + k)) k = false
                 /\ (forall j, (k < j < n)%nat -> bz (R st4 (n + k)) j = false)
                 /\ forall j, (k < j < n)%nat -> bx (R st4 (n + k)) j = false).
    { unfold st4, dz. fold (R st3 (n + k)). change (bit k (rz (R st3 (n + k)))) with (bz (R st3 (n + k)) k).
      destruct (bz (R st3 (n + k)) k) eqn:Ez.
      - split; [apply emit_St; auto; intros q [<-|[]]; lia|].
        rewrite !(R_emit n k T0) by (auto; lia).
        split; [now apply S_fix_Z|].
        destruct (bits_S n k (R st3 (n + k)) k W3 Hk) as [A B].
        split; [now rewrite A|]. split; [rewrite B, Nat.eqb_refl, Ez, Xk3; reflexivity|].
        split; intros j Hj; destruct (bits_S n k (R st3 (n + k)) j W3 Hk) as [A' B'].
        + rewrite B'. replace (j =? k)%nat with false by (symmetry; apply Nat.eqb_neq; lia). now apply Zs3.
        + rewrite A'. now apply X3.
      - split; [exact S3|]. split; [exact D3|]. split; [exact Xk3|]. split; [exact Ez|]. split; assumption. }
    destruct P4 as [S4 [D4 [Xk4 [Zk4 [Zs4 X4]]]]].
    assert (W4 : row_wf n (R st4 (n + k))) by (apply (R_wf n k T0); auto; lia).
    assert (Wd4 : row_wf n (R st4 k)) by (apply (R_wf n k T0); auto; lia).
    fold st2. fold st3. fold st4.
    split; [apply emit_St; auto; intros q [<-|[]]; lia|].
    rewrite !(R_emit n k T0) by (auto; lia).
    split; [now apply H_Z_to_X|].
    intros j Hj. destruct (bits_H n k (R st4 (n + k)) j W4 Hk) as [A B]. rewrite A, B.
    destruct (Nat.lt_ge_cases j k) as [Hjk|Hjk].
    + destruct (Low st4 S4 j Hjk) as [L1 L2].
      replace (j =? k)%nat with false by (symmetry; apply Nat.eqb_neq; lia). auto.
    + destruct (j =? k)%nat eqn:E; [apply Nat.eqb_eq in E; subst j; auto|].
      apply Nat.eqb_neq in E. split; [apply X4 | apply Zs4]; lia.
  - (* no x bit: already Z_k *)
    split; auto. split; auto.
    intros j Hj. destruct (Nat.lt_ge_cases j k) as [Hjk|Hjk].
    + destruct (Low st1 S1 j Hjk) as [L1 L2].
      replace (j =? k)%nat with false by (symmetry; apply Nat.eqb_neq; lia). auto.
    + split; [apply (any_from_false (dx st1 (n + k)) _ _ AnyX j); lia|].
      destruct (j =? k)%nat eqn:E; [apply Nat.eqb_eq in E; now subst | apply Nat.eqb_neq in E; apply Z1; lia].
Qed.

(* ---------------------------------------------------------------- 6. all qubits, the phases, the result *)
Definition stage (n k : nat) (st : astate) : astate :=
  set_row_z_to_zero n k (set_row_x_to_zero n k (set_qubit_x_to_true n k st)).

Lemma stage_St n k T0 st : St n k T0 st -> (k < n)%nat -> St n (S k) T0 (stage n k st).
Proof.
  intros HS Hk. unfold stage.
  destruct (stageA n k T0 st HS Hk) as [SA XA].
  destruct (stageB n k T0 _ SA Hk XA) as [SB XB].
  destruct (stageC n k T0 _ SB Hk XB) as [SC [XC ZC]].
  set (st' := set_row_z_to_zero n k (set_row_x_to_zero n k (set_qubit_x_to_true n k st))) in *.
  destruct SC as [HI HD HR HV HSc]. constructor; auto.
  intros j Hj. destruct (Nat.eq_dec j k) as [->|Hne]; [split; assumption|]. apply HD. lia.
Qed.

Lemma stages_St n T0 : forall len k st, St n k T0 st -> (k + len <= n)%nat ->
  St n (k + len) T0 (fold_left (fun s k => stage n k s) (seq k len) st).
Proof.
  induction len as [|len IH]; intros k st HS Hle; cbn [seq fold_left].
  - now rewrite Nat.add_0_r.
  - replace (k + S len)%nat with (S k + len)%nat by lia. apply IH; [|lia]. apply stage_St; auto. lia.
Qed.

(* Z and X do not change any x/z bit *)
Lemma emit_St_ZX n k T0 g st q : St n k T0 st -> (k <= n)%nat -> (q < n)%nat -> g = AZ q \/ g = AX q -> St n k T0 (emit g st).
Proof.
  intros [HI HD HR HV HS] Hkn Hq Hg. pose proof HI as [HL [Hwf Hac]].
  assert (Hv : agate_valid n g) by (apply (valid1 n q); tauto).
  assert (Hs : sweep_gate g = true) by (destruct Hg; subst; reflexivity).
  assert (Bits : forall w j, row_wf n w -> bx (row_op (agate_op g) w) j = bx w j /\ bz (row_op (agate_op g) w) j = bz w j).
  { intros w j Hw. destruct Hg; subst.
    - destruct (bits_Z n q w j Hw Hq) as [A [B _]]. auto.
    - destruct (bits_X n q w j Hw Hq) as [A [B _]]. auto. }
  constructor.
  - unfold emit. cbn [fst]. apply Inv_tab_op; auto. now apply sweep_gate_symp.
  - intros j Hj. destruct (HD j Hj) as [DX DZ].
    assert (Hjn : (j < n)%nat) by lia.
    rewrite !trow_emit by tlia.
    split; intros j' Hj'; destruct (Bits (trow (fst st) j) j' ltac:(apply Hwf; lia)) as [A B];
      destruct (Bits (trow (fst st) (n + j)) j' ltac:(apply Hwf; lia)) as [A' B'].
    + rewrite A, B. now apply DX.
    + rewrite A', B'. now apply DZ.
  - unfold emit. cbn [fst snd rev]. rewrite run_agates_app, <- HR. reflexivity.
  - unfold emit. cbn [snd]. now constructor.
  - rewrite trow_emit by tlia. rewrite HS. now apply row_op_zero_row.
Qed.

(* the phase fix: Z(k) flips the phase of D_k only, X(k) the phase of S_k only *)
Definition phase_step (n k : nat) (s : astate) : astate :=
  let s1 := if rr (trow (fst s) k) then emit (AZ k) s else s in
  if rr (trow (fst s1) (n + k)) then emit (AX k) s1 else s1.

Lemma rr_emit_Z n T0 st q i : St n n T0 st -> (q < n)%nat -> (i < 2 * n)%nat ->
  rr (R (emit (AZ q) st) i) = xorb (rr (R st i)) (bx (R st i) q).
Proof.
  intros HS Hq Hi. rewrite (R_emit n n T0) by (auto; lia).
  destruct (bits_Z n q (R st i) 0 (R_wf n n T0 st i HS Hi) Hq) as [_ [_ C]]. exact C.
Qed.
Lemma rr_emit_X n T0 st q i : St n n T0 st -> (q < n)%nat -> (i < 2 * n)%nat ->
  rr (R (emit (AX q) st) i) = xorb (rr (R st i)) (bz (R st i) q).
Proof.
  intros HS Hq Hi. rewrite (R_emit n n T0) by (auto; lia).
  destruct (bits_X n q (R st i) 0 (R_wf n n T0 st i HS Hi) Hq) as [_ [_ C]]. exact C.
Qed.

Definition Ph (n k : nat) (s : astate) : Prop :=
  forall j, (j < k)%nat -> rr (R s j) = false /\ rr (R s (n + j)) = false.

Lemma phase_step_ok n T0 k s : St n n T0 s -> (k < n)%nat -> Ph n k s ->
  St n n T0 (phase_step n k s) /\ Ph n (S k) (phase_step n k s).
Proof.
  intros HS Hk HP. unfold phase_step. fold (R s k).
  (* bits of the canonical rows *)
  assert (Can : forall t, St n n T0 t -> forall j, (j < n)%nat -> isX n j (R t j) /\ isZ n j (R t (n + j))).
  { intros t [_ HD _ _ _] j Hj. now apply HD. }
  set (s1 := if rr (R s k) then emit (AZ k) s else s).
  assert (P1 : St n n T0 s1 /\ Ph n k s1 /\ rr (R s1 k) = false).
  { unfold s1. destruct (rr (R s k)) eqn:E.
    - split; [apply (emit_St_ZX n n T0 _ s k); auto|]. split.
      + intros j Hj. destruct (HP j Hj) as [A B]. destruct (Can s HS j ltac:(lia)) as [CX CZ].
        rewrite !(rr_emit_Z n T0) by (auto; lia). rewrite A, B.
        destruct (CX k Hk) as [X1 _]. destruct (CZ k Hk) as [X2 _]. rewrite X1, X2.
        replace (k =? j)%nat with false by (symmetry; apply Nat.eqb_neq; lia). auto.
      + rewrite (rr_emit_Z n T0) by (auto; lia). rewrite E. destruct (Can s HS k Hk) as [CX _].
        destruct (CX k Hk) as [X1 _]. now rewrite X1, Nat.eqb_refl.
    - auto. }
  destruct P1 as [S1 [HP1 E1]].
  change (trow (fst s1) (n + k)) with (R s1 (n + k)).
  destruct (rr (R s1 (n + k))) eqn:E2.
  - split; [apply (emit_St_ZX n n T0 _ s1 k); auto|].
    intros j Hj. rewrite !(rr_emit_X n T0) by (auto; lia).
    destruct (Can s1 S1 j ltac:(lia)) as [CX CZ]. destruct (CX k Hk) as [_ Z1]. destruct (CZ k Hk) as [_ Z2]. rewrite Z1, Z2.
    destruct (Nat.eq_dec j k) as [->|Hne].
    + rewrite E1, E2, Nat.eqb_refl. auto.
    + destruct (HP1 j ltac:(lia)) as [A B]. rewrite A, B.
      replace (k =? j)%nat with false by (symmetry; apply Nat.eqb_neq; lia). auto.
  - split; auto. intros j Hj. destruct (Nat.eq_dec j k) as [->|Hne]; auto. apply HP1. lia.
Qed.

Lemma fix_phases_ok n T0 : forall len k s, St n n T0 s -> Ph n k s -> (k + len <= n)%nat ->
  St n n T0 (fold_left (fun s k => phase_step n k s) (seq k len) s)
  /\ Ph n (k + len) (fold_left (fun s k => phase_step n k s) (seq k len) s).
Proof.
  induction len as [|len IH]; intros k s HS HP Hle; cbn [seq fold_left].
  - rewrite Nat.add_0_r. auto.
  - replace (k + S len)%nat with (S k + len)%nat by lia.
    destruct (phase_step_ok n T0 k s HS ltac:(lia) HP) as [S1 P1]. apply IH; auto. lia.
Qed.

Lemma row_eta (w : row) : w = (rx w, rz w, rr w).
Proof. destruct w as [[a b] c]. reflexivity. Qed.

Lemma trow_zero_scratch n : trow (zero_state n) (2 * n) = zero_row n.
Proof.
  unfold trow, zero_state.
  rewrite app_nth2 by (rewrite map_length, seq_length; lia). rewrite map_length, seq_length.
  rewrite app_nth2 by (rewrite map_length, seq_length; lia). rewrite map_length, seq_length.
  replace (2 * n - n - n)%nat with 0%nat by lia. reflexivity.
Qed.

(* the sweeps followed by the phase fix end in the identity tableau *)
Theorem sweeps_identity n T : Inv n T -> trow T (2 * n) = zero_row n ->
  fst (ag04_sweeps n T) = zero_state n
  /\ Forall (agate_valid n) (snd (ag04_sweeps n T))
  /\ fst (ag04_sweeps n T) = run_agates (rev (snd (ag04_sweeps n T))) T.
Proof.
  intros HI Hscr. unfold ag04_sweeps.
  assert (S0 : St n 0 T (T, [])).
  { constructor; cbn [fst snd]; auto. intros j Hj. lia. }
  pose proof (stages_St n T n 0 (T, []) S0 ltac:(lia)) as S1. cbn [Nat.add] in S1.
  change (fun s k => set_row_z_to_zero n k (set_row_x_to_zero n k (set_qubit_x_to_true n k s))) with (fun s k => stage n k s).
  set (s1 := fold_left (fun s k => stage n k s) (seq 0 n) (T, [])) in *.
  unfold fix_phases.
  change (fun s k => let s2 := if rr (trow (fst s) k) then emit (AZ k) s else s in
                     if rr (trow (fst s2) (n + k)) then emit (AX k) s2 else s2) with (fun s k => phase_step n k s).
  destruct (fix_phases_ok n T n 0 s1 S1 ltac:(intros j Hj; lia) ltac:(lia)) as [S2 P2]. cbn [Nat.add] in P2.
  set (s2 := fold_left (fun s k => phase_step n k s) (seq 0 n) s1) in *.
  change (fst s2 = zero_state n /\ Forall (agate_valid n) (snd s2) /\ fst s2 = run_agates (rev (snd s2)) T).
  destruct S2 as [HI2 HD2 HR2 HV2 HS2]. pose proof HI2 as [HL2 [Hwf2 _]].
  split; [|split; auto].
  apply (nth_ext _ _ dummy_row dummy_row).
  - transitivity (2 * n + 1)%nat; [exact HL2|]. unfold zero_state. rewrite !app_length, !map_length, !seq_length. cbn [length]. lia.
  - intros i Hi. assert (Hi' : (i < 2 * n + 1)%nat) by (rewrite <- HL2; exact Hi).
    change (nth i (fst s2) dummy_row) with (R s2 i). change (nth i (zero_state n) dummy_row) with (trow (zero_state n) i).
    destruct (Nat.eq_dec i (2 * n)) as [->|Hne]; [rewrite trow_zero_scratch; exact HS2|].
    rewrite trow_zero_state by lia. rewrite (row_eta (R s2 i)).
    destruct (i <? n)%nat eqn:E; [apply Nat.ltb_lt in E | apply Nat.ltb_ge in E].
    + destruct (HD2 i E) as [DX _]. fold (R s2 i) in DX.
      destruct (isX_xz n i (R s2 i) (Hwf2 i ltac:(lia)) DX) as [E1 E2].
      destruct (P2 i E) as [R1 _]. now rewrite E1, E2, R1.
    + assert (Ei : i = (n + (i - n))%nat) by lia.
      destruct (HD2 (i - n)%nat ltac:(lia)) as [_ DZ]. fold (R s2 (n + (i - n))) in DZ. rewrite <- Ei in DZ.
      destruct (isZ_xz n (i - n) (R s2 i) (Hwf2 i ltac:(lia)) DZ) as [E1 E2].
      destruct (P2 (i - n)%nat ltac:(lia)) as [_ R2]. rewrite <- Ei in R2. now rewrite E1, E2, R2.
Qed.

Lemma Inv_rows_wf n T : Inv n T -> trow T (2 * n) = zero_row n -> rows_wf n T.
Proof.
  intros [HL [Hwf _]] Hs w Hw. destruct (In_nth T w dummy_row Hw) as [i [Hi <-]].
  destruct (Nat.eq_dec i (2 * n)) as [->|Hne].
  - change (nth (2 * n) T dummy_row) with (trow T (2 * n)). rewrite Hs. split; cbn [fst snd zero_row]; apply length_zeros.
  - apply Hwf. lia.
Qed.

(* _decomposition_AG04 for n <> 1: the returned circuit, run from the zero state, gives back the input tableau *)
Theorem ag04_ok_general n T : n <> 1%nat -> Inv n T -> trow T (2 * n) = zero_row n ->
  run_agates (ag04 n T) (zero_state n) = T.
Proof.
  intros Hn HI Hs. unfold ag04. replace (n =? 1)%nat with false by (symmetry; now apply Nat.eqb_neq).
  destruct (sweeps_identity n T HI Hs) as [E [HV HR]].
  rewrite <- E. rewrite HR at 1.
  apply (ainvert_undoes n).
  - apply Forall_rev. exact HV.
  - now apply Inv_rows_wf.
Qed.

(* n = 1: _single_qubit_clifford_decomposition, by exhaustive computation over the one-qubit tableaux *)
Theorem ag04_ok_one T : Inv 1 T -> trow T 2 = zero_row 1 -> run_agates (ag04 1 T) (zero_state 1) = T.
Proof.
  intros [HL [Hwf Hac]] Hs.
  destruct T as [|d [|s [|c [|e T']]]]; try discriminate HL.
  unfold trow in Hs. cbn [nth] in Hs. subst c.
  pose proof (Hwf 0%nat ltac:(lia)) as [W1 W2]. pose proof (Hwf 1%nat ltac:(lia)) as [W3 W4].
  pose proof (Hac 0%nat 1%nat ltac:(lia) ltac:(lia)) as A01.
  unfold trow in *. cbn [nth] in *.
  destruct d as [[dx dz] dr]. destruct s as [[sx sz] sr]. cbn [fst snd] in *.
  destruct dx as [|a [|? ?]]; try discriminate W1. destruct dz as [|b [|? ?]]; try discriminate W2.
  destruct sx as [|c [|? ?]]; try discriminate W3. destruct sz as [|d [|? ?]]; try discriminate W4.
  destruct a, b, c, d, dr, sr; first [ vm_compute; reflexivity | exfalso; vm_compute in A01; discriminate ].
Qed.

(* tableau -> circuit (AG04): for every n and every tableau that satisfies the commutation relations and has a
   zero scratch row, the circuit returned by _decomposition_AG04, run on CliffordBackend.zero_state with the
   engine's update rules, reproduces the tableau exactly (destabilisers, stabilisers, phases) *)
Theorem ag04_ok n T : Inv n T -> trow T (2 * n) = zero_row n -> run_agates (ag04 n T) (zero_state n) = T.
Proof.
  intros HI Hs. destruct (Nat.eq_dec n 1) as [->|Hn]; [now apply ag04_ok_one | now apply ag04_ok_general].
Qed.
