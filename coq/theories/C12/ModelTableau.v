(* C12/ModelTableau.v : executable model of the tableau update rules of
   qibo/backends/_clifford_operations.py and of their application to a whole symplectic matrix.
   A rule of the Python code reads and writes only the columns x_q, z_q (and x_t, z_t) and r of
   every row, by bitwise and/xor/not on the (bit-packed) columns; so it is a boolean function of
   the row-local bits:  loc1 = (x,z,r) -> (x',z',r'),  loc2 = (xc,zc,xt,zt,r) -> (...).
   The hand-written rules m_* below are tied to the source on every run: the harness regenerates
   gen_* from the Python source (ast translator, fail-closed) and proves gen_* = m_* on all 8 / 32
   inputs.  No proofs in this file. *)
From Coq Require Import List Bool Arith.
Import ListNotations.

Definition row := (list bool * list bool * bool)%type.       (* xs, zs, r *)
Definition tableau := list row.   (* n destabilisers, n stabilisers, 1 scratch row *)

Fixpoint upd {A : Type} (q : nat) (v : A) (l : list A) : list A :=
  match l, q with
  | [], _ => []
  | _ :: l', O => v :: l'
  | a :: l', S q' => a :: upd q' v l'
  end.
Definition bit (q : nat) (l : list bool) : bool := nth q l false.

Definition loc1 := bool -> bool -> bool -> bool * bool * bool.
Definition loc2 := bool -> bool -> bool -> bool -> bool -> bool * bool * bool * bool * bool.

Definition row_app1 (f : loc1) (q : nat) (w : row) : row :=
  let '(xs, zs, r) := w in
  let '(x', z', r') := f (bit q xs) (bit q zs) r in
  (upd q x' xs, upd q z' zs, r').

Definition row_app2 (f : loc2) (c t : nat) (w : row) : row :=
  let '(xs, zs, r) := w in
  let '(xc, zc, xt, zt, r') := f (bit c xs) (bit c zs) (bit t xs) (bit t zs) r in
  (upd t xt (upd c xc xs), upd t zt (upd c zc zs), r').

(* ---- combinators used for the composite rules (FSWAP, ECR, CRX, ...) *)
Definition on_c (f : loc1) : loc2 := fun xc zc xt zt r =>
  let '(x, z, r') := f xc zc r in (x, z, xt, zt, r').
Definition on_t (f : loc1) : loc2 := fun xc zc xt zt r =>
  let '(x, z, r') := f xt zt r in (xc, zc, x, z, r').
Definition flip (f : loc2) : loc2 := fun xc zc xt zt r =>     (* f called with (target, control) *)
  let '(a, b, c, d, r') := f xt zt xc zc r in (c, d, a, b, r').
Definition seq2 (f g : loc2) : loc2 := fun xc zc xt zt r =>   (* f first, then g *)
  let '(a, b, c, d, r') := f xc zc xt zt r in g a b c d r'.
Definition seq1 (f g : loc1) : loc1 := fun x z r => let '(a, b, r') := f x z r in g a b r'.
Definition id1 : loc1 := fun x z r => (x, z, r).
Definition id2 : loc2 := fun xc zc xt zt r => (xc, zc, xt, zt, r).
Fixpoint seqs2 (fs : list loc2) : loc2 :=
  match fs with [] => id2 | f :: fs' => seq2 f (seqs2 fs') end.

(* ---- the basic rules (hand-written; extensionally equal to the generated ones, checked per run) *)
Definition m_I : loc1 := id1.
Definition m_H : loc1 := fun x z r => (z, x, xorb r (x && z)).
Definition m_S : loc1 := fun x z r => (x, xorb z x, xorb r (x && z)).
Definition m_SDG : loc1 := fun x z r => (x, xorb z x, xorb r (x && negb z)).
Definition m_X : loc1 := fun x z r => (x, z, xorb r z).
Definition m_Y : loc1 := fun x z r => (x, z, xorb r (xorb x z)).
Definition m_Z : loc1 := fun x z r => (x, z, xorb r x).
Definition m_SX : loc1 := fun x z r => (xorb x z, z, xorb r (z && negb x)).
Definition m_SXDG : loc1 := fun x z r => (xorb x z, z, xorb r (z && x)).
Definition m_RY_pi : loc1 := fun x z r => (z, x, xorb r (x && negb z)).        (* engine name: RY_pi, used for theta = pi/2 *)
Definition m_RY_3pi_2 : loc1 := fun x z r => (z, x, xorb r (z && negb x)).     (* used for theta = 3pi/2 *)

Definition m_CNOT : loc2 := fun xc zc xt zt r =>
  (xc, xorb zc zt, xorb xt xc, zt, xorb r (xc && zt && negb (xorb xt zc))).
Definition m_CZ : loc2 := fun xc zc xt zt r =>
  (xc, xorb zc xt, xt, xorb zt xc, xorb r (xc && xt && xorb zc zt)).
Definition m_CY : loc2 := fun xc zc xt zt r =>
  (xc, xorb zc (xorb zt xt), xorb xt xc, xorb zt xc,
   xorb r (xc && xorb xt zt && negb (xorb zc zt))).
Definition m_SWAP : loc2 := fun xc zc xt zt r => (xt, zt, xc, zc, r).
Definition m_iSWAP : loc2 := fun xc zc xt zt r =>
  (xt, xorb (xorb xt zt) xc, xc, xorb (xorb xt zc) xc,
   xorb r (xorb (negb xc && xt && zt) (xc && zc && negb xt))).

(* ---- composite rules, in the order of the Python function bodies *)
Definition m_FSWAP : loc2 :=
  seqs2 [on_t m_X; m_CNOT; on_c m_RY_pi; flip m_CNOT; on_c m_RY_3pi_2; flip m_CNOT; m_CNOT; on_c m_X].
Definition m_ECR : loc2 := seqs2 [on_c m_S; on_t m_SX; m_CNOT; on_c m_X].

(* rotation branches, by branch number (ModelFloat.rot_branch / crot_branch) *)
Definition m_RX_branch (j : nat) : loc1 :=
  match j with 0 => m_I | 1 => m_SX | 2 => m_X | _ => m_SXDG end.
Definition m_RY_branch (j : nat) : loc1 :=
  match j with 0 => m_I | 1 => m_RY_pi | 2 => m_Y | _ => m_RY_3pi_2 end.
Definition m_RZ_branch (j : nat) : loc1 :=
  match j with 0 => m_I | 1 => m_S | 2 => m_Z | _ => m_SDG end.
Definition m_CRX_branch (j : nat) : loc2 :=
  match j with
  | 0 => id2
  | 1 => seqs2 [on_t m_X; m_CZ; on_t m_X; m_CY]
  | 2 => seqs2 [m_CZ; on_t m_Y; m_CZ; on_t m_Y]
  | _ => seqs2 [on_t m_X; m_CY; on_t m_X; m_CZ]
  end.
Definition m_CRZ_branch (j : nat) : loc2 :=
  match j with
  | 0 => id2
  | 1 => seqs2 [on_t m_X; m_CY; on_t m_X; m_CNOT]
  | 2 => seqs2 [m_CZ; on_t m_X; m_CZ; on_t m_X]
  | _ => seqs2 [m_CNOT; on_t m_X; m_CY; on_t m_X]
  end.
Definition m_CRY_branch (j : nat) : loc2 :=
  match j with
  | 0 => id2
  | 1 => seqs2 [on_t m_Z; m_CNOT; on_t m_Z; m_CZ]
  | 2 => m_CRZ_branch 2                      (* CRY calls CRZ(..., theta), which re-dispatches *)
  | _ => seqs2 [m_CZ; on_t m_Z; m_CNOT; on_t m_Z]
  end.

(* ---- applying resolved operations to a tableau *)
Inductive op :=
| Op1 (f : loc1) (q : nat)
| Op2 (f : loc2) (c t : nat).

Definition row_op (o : op) (w : row) : row :=
  match o with
  | Op1 f q => row_app1 f q w
  | Op2 f c t => row_app2 f c t w
  end.
Definition tab_op (o : op) (T : tableau) : tableau := map (row_op o) T.
Definition exec (ops : list op) (T : tableau) : tableau := fold_left (fun T o => tab_op o T) ops T.

(* CliffordBackend.zero_state *)
Definition unit_vec (n i : nat) : list bool := map (fun j => Nat.eqb i j) (seq 0 n).
Definition zeros (n : nat) : list bool := repeat false n.
Definition zero_state (n : nat) : tableau :=
  map (fun i => (unit_vec n i, zeros n, false)) (seq 0 n)
  ++ map (fun i => (zeros n, unit_vec n i, false)) (seq 0 n)
  ++ [(zeros n, zeros n, false)].

Definition stabilisers (n : nat) (T : tableau) : list row := firstn n (skipn n T).
Definition destabilisers (n : nat) (T : tableau) : list row := firstn n T.

(* valid operation on n qubits (what qibo's Circuit.add / Gate constructor enforce) *)
Definition op_valid (n : nat) (o : op) : bool :=
  match o with
  | Op1 _ q => q <? n
  | Op2 _ c t => (c <? n) && (t <? n) && negb (c =? t)
  end.
Definition row_wf (n : nat) (w : row) : Prop := length (fst (fst w)) = n /\ length (snd (fst w)) = n.

(* flattening used to print / compare a tableau: rows of x ++ z ++ [r] *)
Definition row_bits (w : row) : list bool := fst (fst w) ++ snd (fst w) ++ [snd w].
Definition tab_bits (T : tableau) : list (list bool) := map row_bits T.
Fixpoint lbeq (a b : list bool) : bool :=
  match a, b with
  | [], [] => true
  | x :: a', y :: b' => Bool.eqb x y && lbeq a' b'
  | _, _ => false
  end.
Fixpoint llbeq (a b : list (list bool)) : bool :=
  match a, b with
  | [], [] => true
  | x :: a', y :: b' => lbeq x y && llbeq a' b'
  | _, _ => false
  end.
Definition row_eqb (a b : row) : bool := lbeq (row_bits a) (row_bits b)
  && Nat.eqb (length (fst (fst a))) (length (fst (fst b))).

(* all inputs of a local rule, for the per-run bridge  gen_* = m_*  *)
Definition bools := [false; true].
Definition loc1_eqb (f g : loc1) : bool :=
  forallb (fun x => forallb (fun z => forallb (fun r =>
    let '(a, b, c) := f x z r in let '(a', b', c') := g x z r in
    Bool.eqb a a' && Bool.eqb b b' && Bool.eqb c c') bools) bools) bools.
Definition loc2_eqb (f g : loc2) : bool :=
  forallb (fun xc => forallb (fun zc => forallb (fun xt => forallb (fun zt => forallb (fun r =>
    let '(a, b, c, d, e) := f xc zc xt zt r in let '(a', b', c', d', e') := g xc zc xt zt r in
    Bool.eqb a a' && Bool.eqb b b' && Bool.eqb c c' && Bool.eqb d d' && Bool.eqb e e')
    bools) bools) bools) bools) bools.

Definition oloc2_eqb (a b : option loc2) : bool :=
  match a, b with
  | Some f, Some g => loc2_eqb f g
  | None, None => true
  | _, _ => false
  end.
