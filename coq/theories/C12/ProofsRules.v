(* C12/ProofsRules.v : lifting of the finite local checks to every n, every qubit placement and
   every state:   L1b U f = true  ->  U_q (P psi) = (f_q P) (U_q psi)   pointwise, for all n, q, P, psi
   (and the two-qubit analogue), then the circuit-level stabiliser theorem. *)
From Coq Require Import ZArith List Bool Arith Lia Ring.
From QV Require Import Base.Mat Base.Zi C12.ModelTableau C12.ModelMeasure C12.Pauli.
Import ListNotations.
Local Open Scope Z_scope.

(* ---------------------------------------------------------------- Gaussian integers form a ring *)
Lemma zi_ring : ring_theory zi0 zi1 zi_add zi_mul zi_sub zi_opp (@eq Zi).
Proof.
  constructor; intros; repeat match goal with x : Zi |- _ => destruct x end;
    unfold zi_sub; unfold zi_add, zi_mul, zi_opp, zi0, zi1; cbn [fst snd]; f_equal; ring.
Qed.
Add Ring ZiRing : zi_ring.

Lemma zi_eqb_true x y : zi_eqb x y = true -> x = y.
Proof.
  destruct x as [a b], y as [c d]. unfold zi_eqb; cbn [fst snd]. intros H.
  apply andb_prop in H. destruct H as [H1 H2].
  apply Z.eqb_eq in H1. apply Z.eqb_eq in H2. now subst.
Qed.

Lemma ipow_add a b : ipow (a + b) = zi_mul (ipow a) (ipow b).
Proof.
  unfold ipow. rewrite Z.add_mod by lia.
  pose proof (Z.mod_pos_bound a 4 ltac:(lia)) as Ha.
  pose proof (Z.mod_pos_bound b 4 ltac:(lia)) as Hb.
  set (u := a mod 4) in *. set (v := b mod 4) in *.
  assert (Hu : u = 0 \/ u = 1 \/ u = 2 \/ u = 3) by lia.
  assert (Hv : v = 0 \/ v = 1 \/ v = 2 \/ v = 3) by lia.
  destruct Hu as [-> | [-> | [-> | ->]]]; destruct Hv as [-> | [-> | [-> | ->]]]; reflexivity.
Qed.

(* ---------------------------------------------------------------- lists *)
Lemma in_bools (x : bool) : In x bools.
Proof. destruct x; cbn; auto. Qed.

Lemma length_upd {A} q (v : A) l : length (upd q v l) = length l.
Proof. revert q. induction l as [|a l IH]; intros [|q]; cbn; auto. Qed.

Lemma bit_upd_same q v l : (q < length l)%nat -> bit q (upd q v l) = v.
Proof.
  unfold bit. revert q. induction l as [|a l IH]; intros [|q] H; cbn in *; try lia; auto.
  apply IH. lia.
Qed.

Lemma bit_upd_other q q' v l : q <> q' -> bit q' (upd q v l) = bit q' l.
Proof.
  unfold bit. revert q q'. induction l as [|a l IH]; intros [|q] [|q'] H; cbn; auto; try congruence.
Qed.

Lemma upd_upd {A} q (v w : A) l : upd q v (upd q w l) = upd q v l.
Proof. revert q. induction l as [|a l IH]; intros [|q]; cbn; auto. now rewrite IH. Qed.

Lemma upd_comm {A} q q' (v w : A) l : q <> q' -> upd q v (upd q' w l) = upd q' w (upd q v l).
Proof.
  revert q q'. induction l as [|a l IH]; intros [|q] [|q'] H; cbn; auto; try congruence.
  rewrite IH; auto.
Qed.

Lemma upd_same q l : upd q (bit q l) l = l.
Proof.
  unfold bit. revert q. induction l as [|a l IH]; intros [|q]; cbn; auto. now rewrite IH.
Qed.

Lemma length_lxor a b : length a = length b -> length (lxor a b) = length a.
Proof.
  revert b. induction a as [|x a IH]; intros [|y b] H; cbn in *; try lia; auto.
Qed.

Lemma lxor_upd_l q c b xs : length b = length xs ->
  lxor (upd q c b) xs = upd q (xorb c (bit q xs)) (lxor b xs).
Proof.
  unfold bit. revert q xs. induction b as [|a b IH]; intros [|q] [|x xs] H; cbn in *; try lia; auto.
  rewrite IH; auto.
Qed.

Lemma lxor_upd_r q v b xs : length b = length xs ->
  lxor b (upd q v xs) = upd q (xorb (bit q b) v) (lxor b xs).
Proof.
  unfold bit. revert q xs. induction b as [|a b IH]; intros [|q] [|x xs] H; cbn in *; try lia; auto.
  rewrite IH; auto.
Qed.

Lemma bit_lxor q b xs : length b = length xs -> (q < length b)%nat ->
  bit q (lxor b xs) = xorb (bit q b) (bit q xs).
Proof.
  unfold bit. revert q xs. induction b as [|a b IH]; intros [|q] [|x xs] H Hq; cbn in *; try lia; auto.
  apply IH; lia.
Qed.

(* ---------------------------------------------------------------- the phase sum is local *)
Lemma phs_upd q : forall xs zs b x' z' c,
  (q < length xs)%nat -> length zs = length xs -> length b = length xs ->
  phs (upd q x' xs) (upd q z' zs) (upd q c b)
  = phs (upd q false xs) (upd q false zs) b + loc x' z' c.
Proof.
  induction q as [|q IH]; intros [|x xs] [|z zs] [|a b] x' z' c Hq Hz Hb; cbn in *; try lia.
  rewrite IH by lia. ring.
Qed.

Lemma phs_upd_b q xs zs b c :
  (q < length xs)%nat -> length zs = length xs -> length b = length xs ->
  phs xs zs (upd q c b)
  = phs (upd q false xs) (upd q false zs) b + loc (bit q xs) (bit q zs) c.
Proof.
  intros. rewrite <- (upd_same q xs) at 1. rewrite <- (upd_same q zs) at 1.
  now apply phs_upd.
Qed.

Lemma phs_upd_xz q xs zs b x' z' :
  (q < length xs)%nat -> length zs = length xs -> length b = length xs ->
  phs (upd q x' xs) (upd q z' zs) b
  = phs (upd q false xs) (upd q false zs) b + loc x' z' (bit q b).
Proof.
  intros. rewrite <- (upd_same q b) at 1. now apply phs_upd.
Qed.

Lemma phs_upd2 c t xs zs b xc' zc' xt' zt' j k :
  c <> t -> (c < length xs)%nat -> (t < length xs)%nat -> length zs = length xs -> length b = length xs ->
  phs (upd t xt' (upd c xc' xs)) (upd t zt' (upd c zc' zs)) (upd t k (upd c j b))
  = phs (upd c false (upd t false xs)) (upd c false (upd t false zs)) b
    + loc xc' zc' j + loc xt' zt' k.
Proof.
  intros Hct Hc Ht Hz Hb.
  rewrite phs_upd by (rewrite ?length_upd; lia).
  rewrite (upd_comm t c false xc' xs), (upd_comm t c false zc' zs) by congruence.
  rewrite phs_upd by (rewrite ?length_upd; lia).
  ring.
Qed.

(* ---------------------------------------------------------------- from the boolean checks to equations *)
Lemma L1b_sound U f : L1b U f = true -> forall x z r a c,
  zi_mul (U a c) (ipow (2 * b2z r + loc x z c))
  = zi_mul (ipow (2 * b2z (snd (f x z r)) + loc (fst (fst (f x z r))) (snd (fst (f x z r))) a))
           (U (xorb a (fst (fst (f x z r)))) (xorb c x)).
Proof.
  unfold L1b. intros H x z r a c.
  rewrite forallb_forall in H. specialize (H x (in_bools x)).
  rewrite forallb_forall in H. specialize (H z (in_bools z)).
  rewrite forallb_forall in H. specialize (H r (in_bools r)).
  rewrite forallb_forall in H. specialize (H a (in_bools a)).
  rewrite forallb_forall in H. specialize (H c (in_bools c)).
  destruct (f x z r) as [[x' z'] r']. cbn [fst snd]. now apply zi_eqb_true.
Qed.

Definition o2 (p : bool * bool * bool * bool * bool) := p.
Lemma L2b_sound U f : L2b U f = true -> forall xc zc xt zt r a1 a2 c1 c2,
  let '(xc', zc', xt', zt', r') := f xc zc xt zt r in
  zi_mul (U a1 a2 c1 c2) (ipow (2 * b2z r + loc xc zc c1 + loc xt zt c2))
  = zi_mul (ipow (2 * b2z r' + loc xc' zc' a1 + loc xt' zt' a2))
           (U (xorb a1 xc') (xorb a2 xt') (xorb c1 xc) (xorb c2 xt)).
Proof.
  unfold L2b. intros H xc zc xt zt r a1 a2 c1 c2.
  rewrite forallb_forall in H. specialize (H xc (in_bools xc)).
  rewrite forallb_forall in H. specialize (H zc (in_bools zc)).
  rewrite forallb_forall in H. specialize (H xt (in_bools xt)).
  rewrite forallb_forall in H. specialize (H zt (in_bools zt)).
  rewrite forallb_forall in H. specialize (H r (in_bools r)).
  rewrite forallb_forall in H. specialize (H a1 (in_bools a1)).
  rewrite forallb_forall in H. specialize (H a2 (in_bools a2)).
  rewrite forallb_forall in H. specialize (H c1 (in_bools c1)).
  rewrite forallb_forall in H. specialize (H c2 (in_bools c2)).
  destruct (f xc zc xt zt r) as [[[[xc' zc'] xt'] zt'] r']. now apply zi_eqb_true.
Qed.

(* ---------------------------------------------------------------- algebra *)
Lemma alg1 (u0 u1 k0 k1 iR iK v0 v1 p0 p1 : Zi) :
  zi_mul u0 k0 = zi_mul iK v0 -> zi_mul u1 k1 = zi_mul iK v1 ->
  zi_add (zi_mul u0 (zi_mul (zi_mul iR k0) p0)) (zi_mul u1 (zi_mul (zi_mul iR k1) p1))
  = zi_mul (zi_mul iR iK) (zi_add (zi_mul v0 p0) (zi_mul v1 p1)).
Proof.
  intros H0 H1.
  transitivity (zi_mul iR (zi_add (zi_mul (zi_mul u0 k0) p0) (zi_mul (zi_mul u1 k1) p1))); [ring|].
  rewrite H0, H1. ring.
Qed.

Lemma alg2 (u00 u01 u10 u11 k00 k01 k10 k11 iR iK v00 v01 v10 v11 p00 p01 p10 p11 : Zi) :
  zi_mul u00 k00 = zi_mul iK v00 -> zi_mul u01 k01 = zi_mul iK v01 ->
  zi_mul u10 k10 = zi_mul iK v10 -> zi_mul u11 k11 = zi_mul iK v11 ->
  zi_add (zi_add (zi_mul u00 (zi_mul (zi_mul iR k00) p00)) (zi_mul u01 (zi_mul (zi_mul iR k01) p01)))
         (zi_add (zi_mul u10 (zi_mul (zi_mul iR k10) p10)) (zi_mul u11 (zi_mul (zi_mul iR k11) p11)))
  = zi_mul (zi_mul iR iK)
      (zi_add (zi_add (zi_mul v00 p00) (zi_mul v01 p01)) (zi_add (zi_mul v10 p10) (zi_mul v11 p11))).
Proof.
  intros H0 H1 H2 H3.
  transitivity (zi_mul iR (zi_add (zi_add (zi_mul (zi_mul u00 k00) p00) (zi_mul (zi_mul u01 k01) p01))
                                  (zi_add (zi_mul (zi_mul u10 k10) p10) (zi_mul (zi_mul u11 k11) p11)))); [ring|].
  rewrite H0, H1, H2, H3. ring.
Qed.

(* ---------------------------------------------------------------- one-qubit rules *)
Definition conj1_ok (U : m1) (f : loc1) : Prop :=
  forall n q w psi b, (q < n)%nat -> row_wf n w -> length b = n ->
    app1 U q (pact w psi) b = pact (row_app1 f q w) (app1 U q psi) b.

Theorem app1_conj U f : L1b U f = true -> conj1_ok U f.
Proof.
  intros HL n q [[xs zs] r] psi b Hq [Hx Hz] Hb. cbn [fst snd] in Hx, Hz.
  pose proof (L1b_sound U f HL) as HS.
  unfold row_app1.
  set (x := bit q xs). set (z := bit q zs).
  specialize (HS x z r).
  destruct (f x z r) as [[x' z'] r'] eqn:Ef. cbn [fst snd] in HS.
  unfold app1, pact, rx, rz, rr. cbn [fst snd].
  rewrite !(phs_upd_b q xs zs b) by lia.
  rewrite (phs_upd_xz q xs zs b x' z') by lia.
  rewrite !(lxor_upd_l q _ b xs) by lia.
  rewrite (lxor_upd_r q x' b xs) by lia.
  rewrite !upd_upd.
  rewrite bit_upd_same by (rewrite length_lxor; lia).
  fold x. fold z.
  set (a := bit q b). set (B := lxor b xs).
  set (R := phs (upd q false xs) (upd q false zs) b).
  replace (2 * b2z r + (R + loc x z false)) with (R + (2 * b2z r + loc x z false)) by ring.
  replace (2 * b2z r + (R + loc x z true)) with (R + (2 * b2z r + loc x z true)) by ring.
  replace (2 * b2z r' + (R + loc x' z' a)) with (R + (2 * b2z r' + loc x' z' a)) by ring.
  rewrite !(ipow_add R).
  rewrite (alg1 _ _ _ _ _ _ _ _ _ _ (HS a false) (HS a true)).
  f_equal.
  destruct x; cbn [xorb]; [apply zi_add_comm | reflexivity].
Qed.

(* ---------------------------------------------------------------- two-qubit rules *)
Definition conj2_ok (U : m2) (f : loc2) : Prop :=
  forall n c t w psi b, (c < n)%nat -> (t < n)%nat -> c <> t -> row_wf n w -> length b = n ->
    app2 U c t (pact w psi) b = pact (row_app2 f c t w) (app2 U c t psi) b.

Lemma phs_b2 c t xs zs b j k :
  c <> t -> (c < length xs)%nat -> (t < length xs)%nat -> length zs = length xs -> length b = length xs ->
  phs xs zs (upd t k (upd c j b))
  = phs (upd c false (upd t false xs)) (upd c false (upd t false zs)) b
    + loc (bit c xs) (bit c zs) j + loc (bit t xs) (bit t zs) k.
Proof.
  intros Hct Hc Ht Hz Hb.
  rewrite <- (phs_upd2 c t xs zs b (bit c xs) (bit c zs) (bit t xs) (bit t zs) j k) by assumption.
  f_equal.
  - rewrite upd_same. rewrite <- (bit_upd_other c t (bit c xs) xs) by assumption.
    rewrite upd_same. rewrite upd_same. reflexivity.
  - rewrite upd_same. rewrite <- (bit_upd_other c t (bit c zs) zs) by assumption.
    rewrite upd_same. rewrite upd_same. reflexivity.
Qed.

Lemma phs_xz2 c t xs zs b xc' zc' xt' zt' :
  c <> t -> (c < length xs)%nat -> (t < length xs)%nat -> length zs = length xs -> length b = length xs ->
  phs (upd t xt' (upd c xc' xs)) (upd t zt' (upd c zc' zs)) b
  = phs (upd c false (upd t false xs)) (upd c false (upd t false zs)) b
    + loc xc' zc' (bit c b) + loc xt' zt' (bit t b).
Proof.
  intros Hct Hc Ht Hz Hb.
  rewrite <- (phs_upd2 c t xs zs b xc' zc' xt' zt' (bit c b) (bit t b)) by assumption.
  f_equal.
  rewrite upd_same. rewrite <- (bit_upd_other c t (bit c b) b) by assumption.
  rewrite upd_same. rewrite upd_same. reflexivity.
Qed.

Lemma upd2_absorb {A} c t (d1 d2 v w : A) l : c <> t ->
  upd t d2 (upd c d1 (upd t v (upd c w l))) = upd t d2 (upd c d1 l).
Proof.
  intros H. rewrite (upd_comm c t d1 v) by assumption. rewrite upd_upd.
  rewrite (upd_upd c d1 w). reflexivity.
Qed.

Theorem app2_conj U f : L2b U f = true -> conj2_ok U f.
Proof.
  intros HL n c t [[xs zs] r] psi b Hc Ht Hct [Hx Hz] Hb. cbn [fst snd] in Hx, Hz.
  pose proof (L2b_sound U f HL) as HS.
  unfold row_app2.
  set (xc := bit c xs). set (zc := bit c zs). set (xt := bit t xs). set (zt := bit t zs).
  specialize (HS xc zc xt zt r).
  destruct (f xc zc xt zt r) as [[[[xc' zc'] xt'] zt'] r'] eqn:Ef.
  unfold app2, pact, rx, rz, rr. cbn [fst snd]. cbv zeta.
  rewrite !(phs_b2 c t xs zs b) by lia.
  rewrite (phs_xz2 c t xs zs b xc' zc' xt' zt') by lia.
  fold xc. fold zc. fold xt. fold zt.
  (* arguments of psi on the left *)
  rewrite !(lxor_upd_l t _ (upd c _ b) xs) by (rewrite length_upd; lia).
  rewrite !(lxor_upd_l c _ b xs) by lia.
  fold xc. fold xt.
  (* on the right *)
  rewrite (lxor_upd_r t xt' b (upd c xc' xs)) by (rewrite length_upd; lia).
  rewrite (lxor_upd_r c xc' b xs) by lia.
  set (B := lxor b xs).
  assert (HlB : length B = n) by (unfold B; rewrite length_lxor; lia).
  rewrite !(upd2_absorb c t) by assumption.
  rewrite (bit_upd_other t c) by congruence.
  rewrite !bit_upd_same by (rewrite ?length_upd; lia).
  set (a1 := bit c b). set (a2 := bit t b).
  set (R := phs (upd c false (upd t false xs)) (upd c false (upd t false zs)) b).
  replace (2 * b2z r + (R + loc xc zc false + loc xt zt false)) with (R + (2 * b2z r + loc xc zc false + loc xt zt false)) by ring.
  replace (2 * b2z r + (R + loc xc zc false + loc xt zt true)) with (R + (2 * b2z r + loc xc zc false + loc xt zt true)) by ring.
  replace (2 * b2z r + (R + loc xc zc true + loc xt zt false)) with (R + (2 * b2z r + loc xc zc true + loc xt zt false)) by ring.
  replace (2 * b2z r + (R + loc xc zc true + loc xt zt true)) with (R + (2 * b2z r + loc xc zc true + loc xt zt true)) by ring.
  replace (2 * b2z r' + (R + loc xc' zc' a1 + loc xt' zt' a2)) with (R + (2 * b2z r' + loc xc' zc' a1 + loc xt' zt' a2)) by ring.
  rewrite !(ipow_add R).
  rewrite (alg2 _ _ _ _ _ _ _ _ _ _ _ _ _ _ _ _ _ _
             (HS a1 a2 false false) (HS a1 a2 false true) (HS a1 a2 true false) (HS a1 a2 true true)).
  f_equal.
  destruct xc, xt; cbn [xorb]; ring.
Qed.
