(* C12/ProofsBorn.v : every outcome string the measurement procedure returns has non-zero Born
   probability.  Post-measurement state = projection; by induction over the measured qubits:
     random outcome      the updated stabilisers stabilise the projected state, which is non-zero
     determined outcome  the scratch row is exactly (-1)^o Z_q (symplectic-basis completeness, by a
                         pigeonhole argument over the 2^(2n) vectors), so the state is already in
                         the o-eigenspace of Z_q and is left unchanged *)
From Coq Require Import ZArith List Bool Arith Lia Ring FinFun.
From QV Require Import Base.Mat Base.Zi C12.ModelFloat C12.ModelTableau C12.ModelExec C12.ModelMeasure C12.Pauli
  C12.ProofsRules C12.ProofsCircuit C12.ProofsMeasure C12.ProofsMeasure2 C12.ProofsMeasure3.
Import ListNotations.

(* ---------------------------------------------------------------- projection onto b_q = v *)
Definition proj (q : nat) (v : bool) (psi : amp) : amp :=
  fun b => if Bool.eqb (bit q b) v then psi b else zi0.

Lemma stabilises_ext n w phi psi :
  row_wf n w -> (forall b, length b = n -> phi b = psi b) -> stabilises n w psi -> stabilises n w phi.
Proof.
  intros Hw He Hs b Hb. rewrite (pact_ext n w phi psi Hw He b Hb). rewrite Hs by assumption.
  symmetry. now apply He.
Qed.

(* a row with x_q = 0 commutes with the projection *)
Lemma pact_proj n q v w psi b :
  row_wf n w -> (q < n)%nat -> length b = n -> bit q (rx w) = false ->
  pact w (proj q v psi) b = proj q v (pact w psi) b.
Proof.
  intros [Hx Hz] Hq Hb Hbit. unfold pact, proj, rx in *.
  rewrite bit_lxor by lia. rewrite Hbit, xorb_false_r.
  destruct (Bool.eqb (bit q b) v); [reflexivity|]. ring.
Qed.

Lemma stab_proj_commuting n q v w psi :
  row_wf n w -> (q < n)%nat -> bit q (rx w) = false -> stabilises n w psi -> stabilises n w (proj q v psi).
Proof.
  intros Hw Hq Hbit Hs b Hb. rewrite (pact_proj n) by assumption.
  unfold proj. destruct (Bool.eqb (bit q b) v); auto.
Qed.

Lemma stab_proj_zq n q v psi : (q < n)%nat -> stabilises n (zq_row n q v) (proj q v psi).
Proof.
  intros Hq b Hb. unfold zq_row. rewrite pact_zrow by assumption. unfold proj.
  destruct (bit q b), v; cbn; ring.
Qed.

Lemma zi_mul_ipow_nonzero k z : z <> zi0 -> zi_mul (ipow k) z <> zi0.
Proof.
  intros Hz H. apply Hz.
  assert (E : zi_norm2 (zi_mul (ipow k) z) = 0%Z) by (rewrite H; reflexivity).
  rewrite zi_norm2_mul, zi_norm2_ipow in E. destruct z as [a b]. unfold zi_norm2, zi0 in *. cbn [fst snd] in *.
  f_equal; nia.
Qed.

(* if a stabiliser flips qubit q, the projection of a non-zero state is non-zero for both values *)
Lemma proj_nonzero n q v w psi :
  (q < n)%nat -> row_wf n w -> stabilises n w psi -> bit q (rx w) = true -> nonzero n psi ->
  nonzero n (proj q v psi).
Proof.
  intros Hq Hw Hs Hbit [b0 [Hb0 Hnz]].
  destruct (Bool.eqb (bit q b0) v) eqn:E.
  - exists b0. split; auto. unfold proj. now rewrite E.
  - destruct Hw as [Hx Hz]. unfold rx in *.
    exists (lxor b0 (fst (fst w))). split; [rewrite length_lxor; lia|].
    unfold proj. rewrite bit_lxor by lia. rewrite Hbit, xorb_true_r.
    replace (Bool.eqb (negb (bit q b0)) v) with true by (destruct (bit q b0), v; cbn in *; congruence).
    intros H0. apply Hnz. rewrite <- (Hs b0 Hb0). unfold pact, rx. rewrite H0. ring.
Qed.

(* ---------------------------------------------------------------- the induction invariant *)
Definition Good (n : nat) (T : tableau) (psi : amp) : Prop :=
  Inv n T /\ nonzero n psi /\ forall i, (i < n)%nat -> stabilises n (trow T (n + i)) psi.

Lemma Good_random n T psi i0 q v :
  Good n T psi -> (i0 < n)%nat -> (q < n)%nat -> bit q (rx (trow T (n + i0))) = true ->
  Good n (random_outcome rowsum_ag n T (n + i0) q v) (proj q v psi).
Proof.
  intros [HI [Hnz Hst]] Hi0 Hq Hbit.
  pose proof HI as [HL [Hwf Hac]].
  assert (Wp : row_wf n (trow T (n + i0))) by (apply Hwf; lia).
  split; [|split].
  - now apply (Inv_random total_ag).
  - apply (proj_nonzero n q v (trow T (n + i0))); auto.
  - intros i Hi.
    rewrite (trow_random rowsum_ag n T (n + i0) q v (n + i)) by lia.
    destruct (n + i =? n + i0)%nat eqn:E1; [now apply stab_proj_zq|].
    replace (n + i =? n + i0 - n)%nat with false by (symmetry; apply Nat.eqb_neq; lia).
    assert (Wi : row_wf n (trow T (n + i))) by (apply Hwf; lia).
    destruct (bit q (rx (trow T (n + i)))) eqn:E2.
    + apply stab_proj_commuting; auto.
      * now apply row_wf_rowsum.
      * unfold rowsum_ag. rewrite rx_rowsum_with. destruct Wp as [Wx _]. destruct Wi as [Wix _]. unfold rx in *.
        rewrite bit_lxor by lia. now rewrite Hbit, E2.
      * pose proof (Hst i Hi) as Si. pose proof (Hst i0 Hi0) as Sp.
        apply rowsum_stabilises; auto. apply (stab_pair_even n _ _ psi); auto.
    + apply stab_proj_commuting; auto.
Qed.

(* ---------------------------------------------------------------- all bit lists of a given length *)
Lemma in_allbits : forall m v, In v (allbits m) <-> length v = m.
Proof.
  induction m as [|m IH]; intros v; cbn [allbits].
  - split; [intros [<-|[]]; reflexivity | intros H; destruct v; [now left | discriminate]].
  - rewrite in_app_iff, !in_map_iff. split.
    + intros [[u [<- Hu]]|[u [<- Hu]]]; cbn; f_equal; now apply IH.
    + intros H. destruct v as [|[|] v]; [discriminate| |]; cbn in H; injection H as H;
        [right|left]; exists v; split; auto; now apply IH.
Qed.

Lemma nodup_app {A} (a b : list A) :
  NoDup a -> NoDup b -> (forall x, In x a -> ~ In x b) -> NoDup (a ++ b).
Proof.
  induction a as [|x a IH]; intros Ha Hb Hd; cbn; auto.
  inversion Ha; subst. constructor.
  - rewrite in_app_iff. intros [H|H]; [contradiction|]. apply (Hd x); [now left|assumption].
  - apply IH; auto. intros y Hy. apply Hd. now right.
Qed.

Lemma nodup_allbits : forall m, NoDup (allbits m).
Proof.
  induction m as [|m IH]; cbn [allbits]; [repeat constructor; intros []|].
  apply nodup_app.
  - apply Injective_map_NoDup; auto. intros x y H. now injection H.
  - apply Injective_map_NoDup; auto. intros x y H. now injection H.
  - intros x Hx Hy. apply in_map_iff in Hx. apply in_map_iff in Hy.
    destruct Hx as [u [<- _]]. destruct Hy as [u' [H _]]. discriminate.
Qed.

Lemma nodup_map_inj_on {A B} (f : A -> B) (l : list A) :
  (forall x y, In x l -> In y l -> f x = f y -> x = y) -> NoDup l -> NoDup (map f l).
Proof.
  induction l as [|a l IH]; intros Hinj Hnd; cbn; [constructor|].
  inversion Hnd; subst. constructor.
  - intros Hin. apply in_map_iff in Hin. destruct Hin as [y [Hy Hy2]].
    assert (y = a) by (apply Hinj; [now right | now left | assumption]). subst. contradiction.
  - apply IH; auto. intros x y Hx Hy. apply Hinj; now right.
Qed.

(* an injective map from the bit lists of length m to themselves is surjective *)
Lemma pigeonhole_bits m (f : list bool -> list bool) :
  (forall c, length c = m -> length (f c) = m) ->
  (forall c c', length c = m -> length c' = m -> f c = f c' -> c = c') ->
  forall v, length v = m -> exists c, length c = m /\ f c = v.
Proof.
  intros Hlen Hinj v Hv.
  assert (Hnd : NoDup (map f (allbits m))).
  { apply nodup_map_inj_on; [|apply nodup_allbits].
    intros x y Hx Hy. apply Hinj; now apply in_allbits. }
  assert (Hincl : incl (map f (allbits m)) (allbits m)).
  { intros y Hy. apply in_map_iff in Hy. destruct Hy as [c [<- Hc]]. apply in_allbits. apply Hlen. now apply in_allbits. }
  assert (Hrev : incl (allbits m) (map f (allbits m))).
  { apply NoDup_length_incl; auto. rewrite map_length. lia. }
  assert (Hin : In v (map f (allbits m))) by (apply Hrev; now apply in_allbits).
  apply in_map_iff in Hin. destruct Hin as [c [Hc Hc2]]. exists c. split; auto. now apply in_allbits.
Qed.

(* ---------------------------------------------------------------- linear combinations of rows (x/z parts) *)
Definition radd (a b : row) : row := (lxor (rx a) (rx b), lxor (rz a) (rz b), false).
Definition zrow (n : nat) : row := (zeros n, zeros n, false).
Definition combg (n : nat) (c : nat -> bool) (g : nat -> row) (idx : list nat) : row :=
  fold_right (fun i acc => if c i then radd (g i) acc else acc) (zrow n) idx.
Definition xz_eq (a b : row) : Prop := rx a = rx b /\ rz a = rz b.

Lemma row_wf_radd n a b : row_wf n a -> row_wf n b -> row_wf n (radd a b).
Proof.
  intros [H1 H2] [H3 H4]. unfold row_wf, radd, rx, rz in *. cbn [fst snd]. split; rewrite length_lxor; lia.
Qed.
Lemma row_wf_zrow n : row_wf n (zrow n).
Proof. split; cbn [fst snd zrow]; apply length_zeros. Qed.
Lemma row_wf_combg n c g idx : (forall i, In i idx -> row_wf n (g i)) -> row_wf n (combg n c g idx).
Proof.
  induction idx as [|i idx IH]; intros H; cbn; [apply row_wf_zrow|].
  assert (W : row_wf n (combg n c g idx)) by (apply IH; intros j Hj; apply H; now right).
  destruct (c i); auto. apply row_wf_radd; auto. apply H. now left.
Qed.

Lemma ac_xz a b w : xz_eq a b -> anticommute a w = anticommute b w.
Proof. intros [H1 H2]. unfold anticommute. now rewrite H1, H2. Qed.

Lemma ac_radd n a b w : row_wf n a -> row_wf n b -> row_wf n w ->
  anticommute (radd a b) w = xorb (anticommute a w) (anticommute b w).
Proof.
  intros [H1 H2] [H3 H4] [H5 H6]. unfold anticommute, radd, rx, rz in *. cbn [fst snd].
  rewrite sympl_lxor_l by lia. apply xorb_comm.
Qed.

Lemma sympl_zeros : forall len xb zb, sympl (repeat false len) (repeat false len) xb zb = false.
Proof. induction len as [|len IH]; intros [|a xb] [|b zb]; cbn; auto. rewrite IH. now destruct a, b. Qed.

Lemma ac_zrow n w : anticommute (zrow n) w = false.
Proof. unfold anticommute, zrow, rx, rz, zeros. cbn [fst snd]. apply sympl_zeros. Qed.

Lemma ac_combg n c g idx w : (forall i, In i idx -> row_wf n (g i)) -> row_wf n w ->
  anticommute (combg n c g idx) w
  = fold_right (fun i acc => xorb (c i && anticommute (g i) w) acc) false idx.
Proof.
  induction idx as [|i idx IH]; intros H Hw; [apply ac_zrow|].
  assert (Hr : forall j, In j idx -> row_wf n (g j)) by (intros j Hj; apply H; now right).
  unfold combg. cbn [fold_right]. fold (combg n c g idx).
  destruct (c i).
  - rewrite (ac_radd n (g i) (combg n c g idx) w (H i (or_introl eq_refl)) (row_wf_combg n c g idx Hr) Hw).
    now rewrite IH.
  - rewrite IH by assumption. now rewrite andb_false_l, xorb_false_l.
Qed.

(* the partner of a row in the symplectic pairing *)
Definition partner (n j : nat) : nat := if (j <? n)%nat then (j + n)%nat else (j - n)%nat.

Lemma pairing_partner n i j : (i < 2 * n)%nat -> (j < 2 * n)%nat -> pairing n i j = (i =? partner n j)%nat.
Proof.
  intros Hi Hj. unfold pairing, partner.
  destruct (j <? n)%nat eqn:E; [apply Nat.ltb_lt in E | apply Nat.ltb_ge in E].
  - replace (j =? i + n)%nat with false by (symmetry; apply Nat.eqb_neq; lia). reflexivity.
  - replace (i =? j + n)%nat with false by (symmetry; apply Nat.eqb_neq; lia). rewrite orb_false_r.
    destruct (j =? i + n)%nat eqn:E1; [apply Nat.eqb_eq in E1 | apply Nat.eqb_neq in E1];
      symmetry; [apply Nat.eqb_eq | apply Nat.eqb_neq]; lia.
Qed.

Lemma partner_lt n j : (j < 2 * n)%nat -> (partner n j < 2 * n)%nat.
Proof. unfold partner. destruct (j <? n)%nat eqn:E; [apply Nat.ltb_lt in E | apply Nat.ltb_ge in E]; lia. Qed.
Lemma partner_invol n j : (j < 2 * n)%nat -> partner n (partner n j) = j.
Proof.
  unfold partner. intros H. destruct (j <? n)%nat eqn:E; [apply Nat.ltb_lt in E | apply Nat.ltb_ge in E].
  - replace (j + n <? n)%nat with false by (symmetry; apply Nat.ltb_ge; lia). lia.
  - replace (j - n <? n)%nat with true by (symmetry; apply Nat.ltb_lt; lia). lia.
Qed.

Lemma xor_pick (c : nat -> bool) t : forall len s,
  fold_right (fun i acc => xorb (c i && (i =? t)%nat) acc) false (seq s len)
  = if ((s <=? t) && (t <? s + len))%nat then c t else false.
Proof.
  induction len as [|len IH]; intros s; cbn [seq fold_right].
  - destruct (s <=? t)%nat eqn:E1; destruct (t <? s + 0)%nat eqn:E2; auto.
    apply Nat.leb_le in E1. apply Nat.ltb_lt in E2. lia.
  - rewrite IH. destruct (s =? t)%nat eqn:E.
    + apply Nat.eqb_eq in E. subst t.
      replace (S s <=? s)%nat with false by (symmetry; apply Nat.leb_gt; lia).
      rewrite Nat.leb_refl. replace (s <? s + S len)%nat with true by (symmetry; apply Nat.ltb_lt; lia).
      cbn. now rewrite andb_true_r, xorb_false_r.
    + apply Nat.eqb_neq in E. rewrite andb_false_r, xorb_false_l.
      destruct (s <=? t)%nat eqn:E1; [apply Nat.leb_le in E1 | apply Nat.leb_gt in E1].
      * replace (S s <=? t)%nat with true by (symmetry; apply Nat.leb_le; lia).
        replace (t <? S s + len)%nat with (t <? s + S len)%nat by (f_equal; lia). reflexivity.
      * replace (S s <=? t)%nat with false by (symmetry; apply Nat.leb_gt; lia). reflexivity.
Qed.

Lemma fold_right_ext_in {A B} (f g : A -> B -> B) z l :
  (forall a b, In a l -> f a b = g a b) -> fold_right f z l = fold_right g z l.
Proof.
  induction l as [|a l IH]; intros H; cbn; auto. rewrite IH by (intros; apply H; now right).
  apply H. now left.
Qed.

(* the coefficient of a row in a combination is read off by the pairing with its partner *)
Lemma coefficient n T c j : Inv n T -> (j < 2 * n)%nat ->
  anticommute (combg n c (trow T) (seq 0 (2 * n))) (trow T j) = c (partner n j).
Proof.
  intros [HL [Hwf Hac]] Hj.
  rewrite (ac_combg n) by (try (intros i Hi; apply in_seq in Hi; apply Hwf; lia); apply Hwf; lia).
  rewrite (fold_right_ext_in _ (fun i acc => xorb (c i && (i =? partner n j)%nat) acc)).
  - rewrite xor_pick. cbn [Nat.leb andb]. pose proof (partner_lt n j Hj).
    replace (partner n j <? 0 + 2 * n)%nat with true by (symmetry; apply Nat.ltb_lt; lia). reflexivity.
  - intros i acc Hi. apply in_seq in Hi. rewrite Hac by lia. now rewrite pairing_partner by lia.
Qed.

(* ---------------------------------------------------------------- the rows of a tableau span everything *)
Definition flat (w : row) : list bool := rx w ++ rz w.
Definition cf (cl : list bool) : nat -> bool := fun i => nth i cl false.

Lemma app_eq_len {A} : forall (a a' b b' : list A), length a = length a' -> a ++ b = a' ++ b' -> a = a' /\ b = b'.
Proof.
  induction a as [|x a IH]; intros [|y a'] b b' Hl H; cbn in *; try discriminate; auto.
  injection H as -> H. injection Hl as Hl. destruct (IH a' b b' Hl H) as [-> ->]. auto.
Qed.

Lemma flat_xz n a b : row_wf n a -> row_wf n b -> flat a = flat b -> xz_eq a b.
Proof.
  intros [H1 H2] [H3 H4] H. unfold flat, xz_eq, rx, rz in *. apply app_eq_len in H; auto. lia.
Qed.

Lemma span n T : Inv n T -> forall w, row_wf n w ->
  exists cl, length cl = (2 * n)%nat /\ xz_eq (combg n (cf cl) (trow T) (seq 0 (2 * n))) w.
Proof.
  intros HI w Hw. pose proof HI as [HL [Hwf Hac]].
  assert (Wc : forall cl, row_wf n (combg n (cf cl) (trow T) (seq 0 (2 * n)))).
  { intros cl. apply row_wf_combg. intros i Hi. apply in_seq in Hi. apply Hwf. lia. }
  destruct (pigeonhole_bits (2 * n) (fun cl => flat (combg n (cf cl) (trow T) (seq 0 (2 * n))))) with (v := flat w)
    as [cl [Hcl Hf]].
  - intros c _. destruct (Wc c) as [H1 H2]. unfold flat, rx, rz. rewrite app_length. lia.
  - intros c c' Hc Hc' H. apply (flat_xz n) in H; auto.
    apply (nth_ext c c' false false); [lia|]. intros i Hi. rewrite Hc in Hi.
    rewrite <- (partner_invol n i Hi).
    change (cf c (partner n (partner n i)) = cf c' (partner n (partner n i))).
    rewrite <- !(coefficient n T _ (partner n i) HI (partner_lt n i Hi)). now apply ac_xz.
  - destruct Hw as [H1 H2]. unfold flat, rx, rz. rewrite app_length. lia.
  - exists cl. split; auto. apply (flat_xz n); auto.
Qed.

(* ---------------------------------------------------------------- the determined scratch row is +-Z_q *)
Lemma lxor_zeros_l : forall b, lxor (zeros (length b)) b = b.
Proof. unfold zeros. induction b as [|a b IH]; cbn; auto. rewrite IH. now destruct a. Qed.

Lemma lxor_swap : forall A B C, length B = length A -> length C = length A ->
  lxor A (lxor B C) = lxor (lxor B A) C.
Proof.
  induction A as [|a A IH]; intros [|b B] [|c C] H1 H2; cbn in *; try lia; auto.
  rewrite IH by lia. f_equal. now destruct a, b, c.
Qed.

Lemma fold_skip {A} (c : nat -> bool) (f : nat -> A -> A) (z : A) l :
  (forall i, In i l -> c i = false) -> fold_right (fun i acc => if c i then f i acc else acc) z l = z.
Proof.
  induction l as [|i l IH]; intros H; cbn; auto. rewrite (H i (or_introl eq_refl)). apply IH. intros; apply H; now right.
Qed.

Lemma fold_right_shift {A} (Phi : nat -> A -> A) (z : A) n : forall len s,
  fold_right Phi z (seq (n + s) len) = fold_right (fun k => Phi (n + k)%nat) z (seq s len).
Proof.
  induction len as [|len IH]; intros s; cbn [seq fold_right]; auto.
  f_equal. rewrite <- Nat.add_succ_r. apply IH.
Qed.

Lemma det_fold_xz n (sel : nat -> bool) (g : nat -> row) : forall idx acc,
  (forall i, In i idx -> row_wf n (g i)) -> row_wf n acc ->
  xz_eq (fold_left (fun acc i => if sel i then rowsum_ag acc (g i) else acc) idx acc)
        (radd (fold_right (fun i a => if sel i then radd (g i) a else a) (zrow n) idx) acc).
Proof.
  induction idx as [|i idx IH]; intros acc Hg Ha.
  - cbn. destruct Ha as [H1 H2]. unfold xz_eq, radd, zrow, rx, rz in *. cbn [fst snd].
    pose proof (lxor_zeros_l (fst (fst acc))) as L1. rewrite H1 in L1.
    pose proof (lxor_zeros_l (snd (fst acc))) as L2. rewrite H2 in L2.
    now rewrite L1, L2.
  - cbn [fold_left fold_right].
    assert (Hr : forall j, In j idx -> row_wf n (g j)) by (intros j Hj; apply Hg; now right).
    assert (Wi : row_wf n (g i)) by (apply Hg; now left).
    set (FR := fold_right (fun i a => if sel i then radd (g i) a else a) (zrow n) idx).
    assert (WF : row_wf n FR) by (apply (row_wf_combg n sel g idx Hr)).
    destruct (sel i).
    + destruct (IH (rowsum_ag acc (g i)) Hr (row_wf_rowsum n acc (g i) Ha Wi)) as [E1 E2].
      fold FR in E1, E2. split; [rewrite E1 | rewrite E2];
        destruct Ha as [A1 A2]; destruct Wi as [G1 G2]; destruct WF as [F1 F2];
        unfold radd, rowsum_ag, rowsum_with, rx, rz in *; cbn [fst snd]; apply lxor_swap; lia.
    + apply IH; auto.
Qed.

Theorem determined_row_is_zq n T q :
  Inv n T -> (q < n)%nat -> (forall i, (i < n)%nat -> bit q (rx (trow T (n + i))) = false) ->
  rx (determined_spec n T q) = zeros n /\ rz (determined_spec n T q) = unit_vec n q.
Proof.
  intros HI Hq Hdet. pose proof HI as [HL [Hwf Hac]].
  destruct (span n T HI (zq_row n q false) (row_wf_zq n q false)) as [cl [Hcl Hxz]].
  (* the coefficients *)
  assert (Hc : forall i, (i < 2 * n)%nat -> cf cl i = bit q (rx (trow T (partner n i)))).
  { intros i Hi. rewrite <- (partner_invol n i Hi) at 1.
    rewrite <- (coefficient n T (cf cl) (partner n i) HI (partner_lt n i Hi)).
    rewrite (ac_xz _ _ _ Hxz).
    rewrite (ac_sym n) by (try apply row_wf_zq; apply Hwf; now apply partner_lt).
    apply ac_zq; auto. apply Hwf. now apply partner_lt. }
  (* drop the destabiliser half, shift the stabiliser half *)
  assert (Hcomb : combg n (cf cl) (trow T) (seq 0 (2 * n))
                  = fold_right (fun k a => if bit q (rx (trow T k)) then radd (trow T (n + k)) a else a) (zrow n) (seq 0 n)).
  { unfold combg. replace (2 * n)%nat with (n + n)%nat by lia. rewrite seq_app, fold_right_app. cbn [Nat.add].
    rewrite fold_skip.
    - replace (seq n n) with (seq (n + 0) n) by (f_equal; lia). rewrite fold_right_shift.
      apply fold_right_ext_in. intros k a Hk. apply in_seq in Hk.
      rewrite Hc by lia. unfold partner. replace (n + k <? n)%nat with false by (symmetry; apply Nat.ltb_ge; lia).
      now replace (n + k - n)%nat with k by lia.
    - intros i Hi. apply in_seq in Hi. rewrite Hc by lia. unfold partner.
      replace (i <? n)%nat with true by (symmetry; apply Nat.ltb_lt; lia).
      replace (i + n)%nat with (n + i)%nat by lia. apply Hdet. lia. }
  destruct (det_fold_xz n (fun k => bit q (rx (trow T k))) (fun k => trow T (n + k)) (seq 0 n) (zrow n)) as [E1 E2].
  { intros k Hk. apply in_seq in Hk. apply Hwf. lia. }
  { apply row_wf_zrow. }
  rewrite <- Hcomb in E1, E2. destruct Hxz as [X1 X2].
  assert (Wc : row_wf n (combg n (cf cl) (trow T) (seq 0 (2 * n)))).
  { apply row_wf_combg. intros i Hi. apply in_seq in Hi. apply Hwf. lia. }
  destruct Wc as [W1 W2].
  unfold determined_spec, determined_with.
  change (zeros n, zeros n, false) with (zrow n).
  set (C := combg n (cf cl) (trow T) (seq 0 (2 * n))) in *.
  unfold rx, rz in *.
  pose proof (lxor_zeros (fst (fst C))) as L1. rewrite W1 in L1.
  pose proof (lxor_zeros (snd (fst C))) as L2. rewrite W2 in L2.
  split.
  - rewrite E1. unfold radd, zrow, rx. cbn [fst snd]. rewrite L1. exact X1.
  - rewrite E2. unfold radd, zrow, rz. cbn [fst snd]. rewrite L2. exact X2.
Qed.

(* ---------------------------------------------------------------- the determined step *)
Lemma find_from_none f : forall len s, find_from f s len = None -> forall i, (s <= i < s + len)%nat -> f i = false.
Proof.
  induction len as [|len IH]; intros s H i Hi; [lia|]. cbn in H.
  destruct (f s) eqn:E; [discriminate|].
  destruct (Nat.eq_dec i s) as [->|Hne]; auto. apply (IH (S s) H). lia.
Qed.

Lemma Good_determined n T psi q :
  Good n T psi -> (q < n)%nat -> first_p n q T = None ->
  let w := determined_spec n T q in
  Good n (upd (2 * n) w T) (proj q (rr w) psi)
  /\ (forall b, length b = n -> proj q (rr w) psi b = psi b).
Proof.
  intros [HI [Hnz Hst]] Hq Hp w.
  pose proof HI as [HL [Hwf Hac]].
  assert (Hdet : forall i, (i < n)%nat -> bit q (rx (trow T (n + i))) = false).
  { intros i Hi. unfold first_p in Hp. apply (find_from_none _ n 0 Hp i). lia. }
  destruct (determined_row_is_zq n T q HI Hq Hdet) as [Wx Wz]. fold w in Wx, Wz.
  destruct (determined_spec_stabilises n T q psi Hnz) as [Ww Sw].
  { intros i Hi. split; [apply Hwf; lia | now apply Hst]. }
  fold w in Ww, Sw.
  assert (Ew : w = (zeros n, unit_vec n q, rr w)).
  { destruct w as [[wx wz] wr]. unfold rx, rz, rr in *. cbn [fst snd] in *. now subst. }
  assert (Hsup : forall b, length b = n -> bit q b <> rr w -> psi b = zi0).
  { rewrite Ew in Sw. now apply (determined_support n q (rr w) psi Hq Sw). }
  assert (Hpt : forall b, length b = n -> proj q (rr w) psi b = psi b).
  { intros b Hb. unfold proj. destruct (Bool.eqb (bit q b) (rr w)) eqn:E; auto.
    symmetry. apply Hsup; auto. intros H. rewrite H in E. now rewrite eqb_reflx in E. }
  split; [|exact Hpt]. split; [now apply Inv_scratch|]. split.
  - destruct Hnz as [b0 [Hb0 Hn0]]. exists b0. split; auto. now rewrite Hpt.
  - intros i Hi. unfold trow. rewrite nth_upd_other by lia.
    apply (stabilises_ext n _ _ psi); auto; [apply Hwf; lia | now apply Hst].
Qed.

(* ---------------------------------------------------------------- the theorem *)
(* the bits of b on the measured qubits are the sampled outcomes *)
Fixpoint agrees (b : list bool) (qs : list nat) (s : list bool) : Prop :=
  match qs, s with
  | [], [] => True
  | q :: qs', v :: s' => bit q b = v /\ agrees b qs' s'
  | _, _ => False
  end.

Theorem born_support : forall qs n T o s T' psi,
  Good n T psi -> Forall (fun q => (q < n)%nat) qs ->
  M_spec n T qs o = Some (s, T') ->
  exists b, length b = n /\ psi b <> zi0 /\ agrees b qs s.
Proof.
  unfold M_spec.
  induction qs as [|q qs IH]; intros n T o s T' psi HG Hq H; cbn [measure] in H.
  - injection H as <- _. destruct HG as [_ [[b0 [Hb0 Hn0]] _]]. exists b0. cbn. auto.
  - inversion Hq as [|? ? Hq1 Hq2]; subst.
    destruct (first_p n q T) as [i|] eqn:Ep.
    + destruct o as [|v os]; [discriminate|].
      destruct (measure rowsum_ag determined_spec n (random_outcome rowsum_ag n T (n + i) q v) qs os)
        as [[s1 T1]|] eqn:Em; [|discriminate].
      injection H as <- _.
      unfold first_p in Ep. apply find_from_spec in Ep. destruct Ep as [Hi Hb].
      assert (HG1 : Good n (random_outcome rowsum_ag n T (n + i) q v) (proj q v psi))
        by (apply Good_random; auto; lia).
      destruct (IH n _ os s1 T1 _ HG1 Hq2 Em) as [b [Hlb [Hnz Hag]]].
      exists b. unfold proj in Hnz. destruct (Bool.eqb (bit q b) v) eqn:E; [|congruence].
      apply eqb_prop in E. cbn. auto.
    + set (w := determined_spec n T q) in *.
      destruct (measure rowsum_ag determined_spec n (upd (2 * n) w T) qs o) as [[s1 T1]|] eqn:Em; [|discriminate].
      injection H as <- _.
      destruct (Good_determined n T psi q HG Hq1 Ep) as [HG1 Hpt]. fold w in HG1, Hpt.
      destruct (IH n _ o s1 T1 _ HG1 Hq2 Em) as [b [Hlb [Hnz Hag]]].
      exists b. unfold proj in Hnz. destruct (Bool.eqb (bit q b) (rr w)) eqn:E; [|congruence].
      apply eqb_prop in E. cbn. auto.
Qed.

(* the same for the engine as written *)
Corollary born_support_engine : forall qs n T o s T' psi,
  Good n T psi -> Forall (fun q => (q < n)%nat) qs ->
  M_real n T qs o = Some (s, T') ->
  exists b, length b = n /\ psi b <> zi0 /\ agrees b qs s.
Proof. intros qs n T o s T' psi HG Hq H. rewrite M_real_is_spec in H. now apply (born_support qs n T o s T'). Qed.

(* ---------------------------------------------------------------- circuits: from |0..0> *)
Lemma nth_map_seq {A} (f : nat -> A) (d : A) n i : (i < n)%nat -> nth i (map f (seq 0 n)) d = f i.
Proof.
  intros H. rewrite (nth_indep _ d (f 0%nat)) by (now rewrite map_length, seq_length).
  rewrite map_nth. now rewrite seq_nth.
Qed.

Lemma bit_unit_vec n i j : (j < n)%nat -> bit j (unit_vec n i) = (i =? j)%nat.
Proof. intros Hj. unfold bit, unit_vec. now rewrite nth_map_seq. Qed.

Lemma bit_zeros n j : bit j (zeros n) = false.
Proof. unfold bit, zeros. revert j. induction n as [|n IH]; intros [|j]; cbn; auto. Qed.

Lemma sympl_zz : forall xa xb len, sympl xa (repeat false len) xb (repeat false len) = false.
Proof.
  induction xa as [|a xa IH]; intros [|b xb] [|len]; cbn; auto.
  rewrite IH. now rewrite !andb_false_r.
Qed.

Lemma trow_zero_state n i : (i < 2 * n)%nat ->
  trow (zero_state n) i = if (i <? n)%nat then (unit_vec n i, zeros n, false) else (zeros n, unit_vec n (i - n), false).
Proof.
  intros Hi. unfold trow, zero_state.
  destruct (i <? n)%nat eqn:E; [apply Nat.ltb_lt in E | apply Nat.ltb_ge in E].
  - rewrite app_nth1 by (now rewrite map_length, seq_length). now rewrite nth_map_seq.
  - rewrite app_nth2 by (rewrite map_length, seq_length; lia). rewrite map_length, seq_length.
    rewrite app_nth1 by (rewrite map_length, seq_length; lia). now rewrite nth_map_seq by lia.
Qed.

Theorem Inv_zero_state n : Inv n (zero_state n).
Proof.
  assert (Wf : forall i, (i < 2 * n)%nat -> row_wf n (trow (zero_state n) i)).
  { intros i Hi. rewrite trow_zero_state by assumption.
    destruct (i <? n)%nat; split; cbn [fst snd]; auto using length_zeros, length_unit_vec. }
  split; [|split]; auto.
  - unfold zero_state. rewrite !app_length, !map_length, !seq_length. cbn. lia.
  - intros i j Hi Hj. pose proof (Wf i Hi) as Wi. pose proof (Wf j Hj) as Wj.
    rewrite !trow_zero_state in * by assumption. unfold pairing.
    destruct (i <? n)%nat eqn:Ei; [apply Nat.ltb_lt in Ei | apply Nat.ltb_ge in Ei];
    destruct (j <? n)%nat eqn:Ej; [apply Nat.ltb_lt in Ej | apply Nat.ltb_ge in Ej | apply Nat.ltb_lt in Ej | apply Nat.ltb_ge in Ej].
    + unfold anticommute, rx, rz, zeros. cbn [fst snd]. rewrite sympl_zz. symmetry. apply orb_false_iff.
      split; apply Nat.eqb_neq; lia.
    + change (zeros n, unit_vec n (j - n), false) with (zq_row n (j - n) false).
      rewrite ac_zq by (auto; lia). unfold rx. cbn [fst snd]. rewrite bit_unit_vec by lia.
      replace (i =? j + n)%nat with false by (symmetry; apply Nat.eqb_neq; lia). rewrite orb_false_r.
      destruct (i =? j - n)%nat eqn:E; [apply Nat.eqb_eq in E | apply Nat.eqb_neq in E]; symmetry;
        [apply Nat.eqb_eq | apply Nat.eqb_neq]; lia.
    + rewrite (ac_sym n) by assumption.
      change (zeros n, unit_vec n (i - n), false) with (zq_row n (i - n) false).
      rewrite ac_zq by (auto; lia). unfold rx. cbn [fst snd]. rewrite bit_unit_vec by lia.
      replace (j =? i + n)%nat with false by (symmetry; apply Nat.eqb_neq; lia). rewrite orb_false_l.
      destruct (j =? i - n)%nat eqn:E; [apply Nat.eqb_eq in E | apply Nat.eqb_neq in E]; symmetry;
        [apply Nat.eqb_eq | apply Nat.eqb_neq]; lia.
    + change (zeros n, unit_vec n (j - n), false) with (zq_row n (j - n) false).
      rewrite ac_zq by (auto; lia). unfold rx. cbn [fst snd]. rewrite bit_zeros. symmetry. apply orb_false_iff.
      split; apply Nat.eqb_neq; lia.
Qed.

Lemma Inv_exec n : forall os T, Inv n T ->
  Forall (fun o => op_symp o = true) os -> Forall (fun o => op_valid n o = true) os -> Inv n (exec os T).
Proof.
  unfold exec. induction os as [|o os IH]; intros T HI Hs Hv; cbn; auto.
  inversion Hs; subst. inversion Hv; subst. apply IH; auto. now apply Inv_tab_op.
Qed.

Lemma nth_firstn_lt {A} (d : A) : forall k l i, (i < k)%nat -> nth i (firstn k l) d = nth i l d.
Proof. induction k as [|k IH]; intros [|a l] [|i] H; cbn; auto; try lia. apply IH. lia. Qed.
Lemma nth_skipn_add {A} (d : A) : forall k l i, nth i (skipn k l) d = nth (k + i) l d.
Proof. induction k as [|k IH]; intros [|a l] i; cbn; auto. now destruct i. Qed.

Lemma trow_in_stabilisers n T i : length T = (2 * n + 1)%nat -> (i < n)%nat -> In (trow T (n + i)) (stabilisers n T).
Proof.
  intros HL Hi. unfold trow, stabilisers.
  rewrite <- (nth_skipn_add dummy_row n T i). rewrite <- (nth_firstn_lt dummy_row n (skipn n T) i Hi).
  apply nth_In. rewrite firstn_length, skipn_length. lia.
Qed.

(* every outcome string that M returns on the final tableau of a circuit of verified operations has
   non-zero Born probability in the exact state-vector result *)
Theorem born_support_circuit n os qs o s T' :
  Forall (fun o => sop_check o = true) os -> Forall (sop_valid n) os ->
  Forall (fun o => op_symp (sop_op o) = true) os ->
  nonzero n (run_spec os psi0) -> Forall (fun q => (q < n)%nat) qs ->
  M_real n (exec (map sop_op os) (zero_state n)) qs o = Some (s, T') ->
  exists b, length b = n /\ run_spec os psi0 b <> zi0 /\ agrees b qs s.
Proof.
  intros Hc Hv Hs Hnz Hq HM.
  apply (born_support_engine qs n (exec (map sop_op os) (zero_state n)) o s T' (run_spec os psi0)); auto.
  assert (HI : Inv n (exec (map sop_op os) (zero_state n))).
  { apply Inv_exec; [apply Inv_zero_state| |].
    - apply Forall_map. exact Hs.
    - apply Forall_map. exact Hv. }
  split; [exact HI|split; [exact Hnz|]].
  intros i Hi. destruct HI as [HL _].
  apply (clifford_sim_ok n os Hc Hv). now apply trow_in_stabilisers.
Qed.

(* ---------------------------------------------------------------- gate records *)
Lemma rx_symp j : symp1_ok (m_RX_branch j) = true.
Proof. destruct j as [|[|[|j]]]; vm_compute; reflexivity. Qed.
Lemma ry_symp j : symp1_ok (m_RY_branch j) = true.
Proof. destruct j as [|[|[|j]]]; vm_compute; reflexivity. Qed.
Lemma rz_symp j : symp1_ok (m_RZ_branch j) = true.
Proof. destruct j as [|[|[|j]]]; vm_compute; reflexivity. Qed.
Lemma crx_symp j : symp2_ok (m_CRX_branch j) = true.
Proof. destruct j as [|[|[|j]]]; vm_compute; reflexivity. Qed.
Lemma cry_symp j : symp2_ok (m_CRY_branch j) = true.
Proof. destruct j as [|[|[|j]]]; vm_compute; reflexivity. Qed.
Lemma crz_symp j : symp2_ok (m_CRZ_branch j) = true.
Proof. destruct j as [|[|[|j]]]; vm_compute; reflexivity. Qed.

Lemma sop_of_gate_symp g s : sop_of_gate g = Some s -> op_symp (sop_op s) = true.
Proof.
  unfold sop_of_gate, m_RX, m_RY, m_RZ.
  destruct (negb (args_cover_qubits g)); [discriminate|].
  destruct (g_cls g); destruct (g_args g) as [|q [|t [|u l]]]; destruct (g_kw g) as [th|];
    try discriminate; intros H.
  all: lazymatch type of H with
       | context [crot_branch] =>
           destruct (crot_branch th) as [j|]; [|discriminate]; injection H as <-; cbn [sop_op op_symp];
           lazymatch goal with
           | |- symp2_ok (m_CRX_branch _) = true => apply crx_symp
           | |- symp2_ok (m_CRY_branch _) = true => apply cry_symp
           | |- symp2_ok (m_CRZ_branch _) = true => apply crz_symp
           end
       | context [rot_branch] =>
           injection H as <-; cbn [sop_op op_symp];
           lazymatch goal with
           | |- symp1_ok (m_RX_branch _) = true => apply rx_symp
           | |- symp1_ok (m_RY_branch _) = true => apply ry_symp
           | |- symp1_ok (m_RZ_branch _) = true => apply rz_symp
           end
       | _ => injection H as <-; vm_compute; reflexivity
       end.
Qed.

Lemma sops_of_symp : forall gs l, sops_of gs = Some l -> Forall (fun o => op_symp (sop_op o) = true) l.
Proof.
  induction gs as [|g gs IH]; intros l H; cbn in H.
  - injection H as <-. constructor.
  - destruct (g_cls g) eqn:Ec;
      try (destruct (sop_of_gate g) as [s|] eqn:Es; [|discriminate];
           destruct (sops_of gs) as [l'|] eqn:El; [|discriminate];
           injection H as <-; constructor; [now apply (sop_of_gate_symp g) | now apply IH]).
    now apply IH.
Qed.

(* accepted circuit of plain library gates, then M on the final tableau: every returned outcome string
   has non-zero Born probability in the exact state-vector result *)
Theorem born_support_execute half n c l T qs o s T' :
  sops_of c = Some l -> Forall (sop_valid n) l -> execute_circuit_at half n c = Final T ->
  nonzero n (run_spec l psi0) -> Forall (fun q => (q < n)%nat) qs ->
  M_real n T qs o = Some (s, T') ->
  exists b, length b = n /\ run_spec l psi0 b <> zi0 /\ agrees b qs s.
Proof.
  intros Hs Hv He Hnz Hq HM. unfold execute_circuit_at in He.
  destruct (accepted_at half c); [|discriminate].
  destruct (run_gates_sops c l (zero_state n) Hs) as [Hall Hrun].
  rewrite Hrun in He. injection He as <-.
  apply (born_support_circuit n l qs o s T'); auto.
  - now apply Forall_forall.
  - now apply (sops_of_symp c).
Qed.
