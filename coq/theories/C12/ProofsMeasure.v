(* C12/ProofsMeasure.v : the measurement arithmetic.
     exponent_is_g        _exponent (on bits) is Aaronson-Gottesman's g modulo 4
     rowsum_ok            rowsum computes the product of the two Pauli operators including the phase:
                            P_i (P_h psi) = i^e (P_{i+h} psi),  e = 2 r_h + 2 r_i + sum g;   for commuting rows
                            (e even) the row written by rowsum encodes exactly P_i P_h
     rowsum_packed_refuted   the byte arithmetic of the numpy engine does not
     determined_refuted      the XOR-reduction of the determined outcome does not
     tableau_inv_rules    every update rule preserves the symplectic (commutation) relations *)
From Coq Require Import ZArith List Bool Arith Lia Ring.
From QV Require Import Base.Mat Base.Zi C12.ModelTableau C12.ModelMeasure C12.Pauli C12.ProofsRules.
Import ListNotations.
Local Open Scope Z_scope.

Theorem exponent_is_g x1 z1 x2 z2 : (exponent_bit x1 z1 x2 z2) mod 4 = (ag_g x1 z1 x2 z2) mod 4.
Proof. destruct x1, z1, x2, z2; reflexivity. Qed.

Lemma ipow_mod a : ipow (a mod 4) = ipow a.
Proof. unfold ipow. now rewrite Z.mod_mod by lia. Qed.

Lemma ipow_congr a b : a mod 4 = b mod 4 -> ipow a = ipow b.
Proof. intros H. unfold ipow. now rewrite H. Qed.

(* ---- the local identity behind rowsum:  sigma_i applied after sigma_h, at one qubit *)
Lemma loc_mul xi zi xh zh a :
  ipow (loc xi zi a + loc xh zh (xorb a xi))
  = ipow (ag_g xi zi xh zh + loc (xorb xi xh) (xorb zi zh) a).
Proof. destruct xi, zi, xh, zh, a; reflexivity. Qed.

Lemma phs_mul : forall xi zi xh zh b,
  length zi = length xi -> length xh = length xi -> length zh = length xi -> length b = length xi ->
  ipow (phs xi zi b + phs xh zh (lxor b xi))
  = ipow (sum4 ag_g xi zi xh zh + phs (lxor xi xh) (lxor zi zh) b).
Proof.
  induction xi as [|x xi IH]; intros [|z zi] [|x2 xh] [|z2 zh] [|a b] H1 H2 H3 H4;
    cbn [phs lxor sum4 length] in *; try lia; auto.
  replace (loc x z a + phs xi zi b + (loc x2 z2 (xorb a x) + phs xh zh (lxor b xi)))
    with ((loc x z a + loc x2 z2 (xorb a x)) + (phs xi zi b + phs xh zh (lxor b xi))) by ring.
  replace (ag_g x z x2 z2 + sum4 ag_g xi zi xh zh
           + (loc (xorb x x2) (xorb z z2) a + phs (lxor xi xh) (lxor zi zh) b))
    with ((ag_g x z x2 z2 + loc (xorb x x2) (xorb z z2) a)
          + (sum4 ag_g xi zi xh zh + phs (lxor xi xh) (lxor zi zh) b)) by ring.
  rewrite (ipow_add (loc x z a + loc x2 z2 (xorb a x))).
  rewrite (ipow_add (ag_g x z x2 z2 + loc (xorb x x2) (xorb z z2) a)).
  rewrite loc_mul. rewrite IH by lia. reflexivity.
Qed.

Lemma lxor_assoc : forall b xi xh, length xi = length b -> length xh = length b ->
  lxor (lxor b xi) xh = lxor b (lxor xi xh).
Proof.
  induction b as [|a b IH]; intros [|x xi] [|y xh] H1 H2; cbn in *; try lia; auto.
  rewrite IH by lia. now rewrite xorb_assoc.
Qed.

(* P_i (P_h psi) = i^e P_{i+h} psi   with e = total_ag wh wi, for every psi and every basis index *)
Theorem rowsum_product n wh wi psi b :
  row_wf n wh -> row_wf n wi -> length b = n ->
  pact wi (pact wh psi) b
  = zi_mul (ipow (total_ag wh wi)) (pact (lxor (rx wi) (rx wh), lxor (rz wi) (rz wh), false) psi b).
Proof.
  destruct wh as [[xh zh] rh], wi as [[xi zi] ri]. unfold row_wf, total_ag, pact, rx, rz, rr. cbn [fst snd].
  intros [Hxh Hzh] [Hxi Hzi] Hb.
  rewrite lxor_assoc by lia.
  set (P := psi (lxor b (lxor xi xh))).
  transitivity (zi_mul (ipow (2 * b2z ri + 2 * b2z rh + (phs xi zi b + phs xh zh (lxor b xi)))) P).
  - rewrite zi_mul_assoc. rewrite <- ipow_add. f_equal. f_equal. ring.
  - rewrite (ipow_add (2 * b2z ri + 2 * b2z rh)). rewrite phs_mul by lia. rewrite <- ipow_add.
    rewrite zi_mul_assoc. rewrite <- ipow_add. f_equal. f_equal. cbn [b2z]. ring.
Qed.

(* for commuting rows (even exponent) the row produced by rowsum encodes the product, phase included *)
Theorem rowsum_ok n wh wi psi b :
  row_wf n wh -> row_wf n wi -> length b = n -> (total_ag wh wi) mod 2 = 0 ->
  pact (rowsum_ag wh wi) psi b = pact wi (pact wh psi) b.
Proof.
  intros Hh Hi Hb He. rewrite (rowsum_product n) by assumption.
  unfold rowsum_ag, rowsum_with, pact at 1, rx, rz, rr. cbn [fst snd].
  unfold pact, rx, rz, rr. cbn [fst snd]. rewrite zi_mul_assoc. rewrite <- ipow_add.
  f_equal. apply ipow_congr.
  set (e := total_ag wh wi) in *.
  pose proof (Z.mod_pos_bound e 4 ltac:(lia)) as Hb4.
  assert (He4 : e mod 4 = 0 \/ e mod 4 = 2).
  { pose proof (Z.div_mod e 4 ltac:(lia)) as D4. pose proof (Z.div_mod e 2 ltac:(lia)) as D2.
    rewrite He in D2. lia. }
  destruct He4 as [E|E]; rewrite E; cbn [Z.eqb negb b2z];
    rewrite <- (Zplus_mod_idemp_l e), E; f_equal; ring.
Qed.

(* _exponent on unpacked bits gives the same row as g *)
Lemma sum4_congr : forall x1 z1 x2 z2,
  (sum4 exponent_bit x1 z1 x2 z2) mod 4 = (sum4 ag_g x1 z1 x2 z2) mod 4.
Proof.
  induction x1 as [|a x1 IH]; intros [|b z1] [|c x2] [|d z2]; cbn; auto.
  rewrite Z.add_mod by lia. rewrite exponent_is_g, IH. now rewrite <- Z.add_mod by lia.
Qed.

Theorem rowsum_bits_is_ag wh wi : rowsum_bits wh wi = rowsum_ag wh wi.
Proof.
  unfold rowsum_bits, rowsum_ag, rowsum_with. f_equal. f_equal. f_equal.
  unfold total_bits, total_ag. rewrite Z.add_mod by lia. rewrite sum4_congr.
  now rewrite <- Z.add_mod by lia.
Qed.

(* ---- what the numpy engine computes instead (rows ZZ and XX: the product is -YY) *)
Definition w_ZZ : row := ([false; false], [true; true], false).
Definition w_XX : row := ([true; true], [false; false], false).

Theorem rowsum_packed_refuted :
  exists wh wi, row_wf 2 wh /\ row_wf 2 wi /\ (total_ag wh wi) mod 2 = 0
                /\ rowsum_packed wh wi <> rowsum_ag wh wi.
Proof.
  exists w_ZZ, w_XX. repeat split; try reflexivity. vm_compute. discriminate.
Qed.

Example rowsum_witness_values :
  rowsum_ag w_ZZ w_XX = ([true; true], [true; true], true)        (* -YY : correct, XX ZZ = -YY *)
  /\ rowsum_packed w_ZZ w_XX = ([true; true], [true; true], false). (* +YY : what the engine writes *)
Proof. split; vm_compute; reflexivity. Qed.

(* for n <= 4 every byte product vanishes mod 256: the packed exponent is identically 0 *)
Example packed_exponent_vanishes_n4 :
  forallb (fun v => Z.eqb (exponent_byte (fst (fst (fst v))) (snd (fst (fst v))) (snd (fst v)) (snd v)) 0)
    (list_prod (list_prod (list_prod [0; 16; 32; 48; 64; 128; 240] [0; 16; 32; 128; 240]) [0; 16; 64; 240]) [0; 16; 128; 240])
  = true.
Proof. vm_compute. reflexivity. Qed.

(* ---- the determined outcome: XOR of the phases vs. the product of the stabilisers *)
Definition witness_ops : list op := [Op2 m_CNOT 0 1; Op1 m_H 0; Op2 m_CNOT 1 2; Op2 m_CNOT 0 1].
Definition witness_T : tableau := exec witness_ops (zero_state 3).

Theorem determined_refuted :
  exists n T q, T = witness_T /\ n = 3%nat /\ first_p n q T = None
                /\ rr (determined_real n T q) <> rr (determined_spec n T q).
Proof.
  exists 3%nat, witness_T, 2%nat. repeat split; try reflexivity. vm_compute. discriminate.
Qed.

(* the reference value is the right one: the state (|000> + |110>)/sqrt2 (scaled) is stabilised by +Z_2 *)
Definition witness_sops : list sop :=
  [S2 (of_mat2 M_CNOT) m_CNOT 0 1; S1 (of_mat1 M_H) m_H 0; S2 (of_mat2 M_CNOT) m_CNOT 1 2; S2 (of_mat2 M_CNOT) m_CNOT 0 1].
Example witness_state_has_qubit2_zero :
  stabilises_b 3 (determined_spec 3 witness_T 2) (run_spec witness_sops psi0) = true
  /\ determined_spec 3 witness_T 2 = (zeros 3, unit_vec 3 2, false)
  /\ stabilises_b 3 (zeros 3, unit_vec 3 2, rr (determined_real 3 witness_T 2)) (run_spec witness_sops psi0) = false.
Proof. split; [|split]; vm_compute; reflexivity. Qed.

(* ---- products of stabilising rows stabilise (one rowsum step), hence the scratch row of the
   reference procedure stabilises the state whenever every step multiplies commuting rows *)
Lemma pact_ext n w phi psi :
  row_wf n w -> (forall b, length b = n -> phi b = psi b) -> forall b, length b = n -> pact w phi b = pact w psi b.
Proof.
  intros [Hx _] H b Hb. unfold pact, rx. rewrite H; auto. rewrite length_lxor; lia.
Qed.

Theorem rowsum_stabilises n wh wi psi :
  row_wf n wh -> row_wf n wi -> (total_ag wh wi) mod 2 = 0 ->
  stabilises n wh psi -> stabilises n wi psi -> stabilises n (rowsum_ag wh wi) psi.
Proof.
  intros Hh Hi He Sh Si b Hb. rewrite (rowsum_ok n) by assumption.
  rewrite (pact_ext n wi (pact wh psi) psi Hi Sh b Hb). now apply Si.
Qed.

Lemma row_wf_rowsum n wh wi : row_wf n wh -> row_wf n wi -> row_wf n (rowsum_ag wh wi).
Proof.
  destruct wh as [[xh zh] rh], wi as [[xi zi] ri]. unfold row_wf, rowsum_ag, rowsum_with, rx, rz. cbn [fst snd].
  intros [? ?] [? ?]. split; rewrite length_lxor; lia.
Qed.

(* the scratch-row accumulation of determined_spec, with the evenness of every step made explicit *)
Fixpoint acc_even (acc : row) (ws : list row) : Prop :=
  match ws with
  | [] => True
  | w :: ws' => (total_ag acc w) mod 2 = 0 /\ acc_even (rowsum_ag acc w) ws'
  end.

Theorem determined_spec_stabilises_partial n psi : forall ws acc,
  row_wf n acc -> stabilises n acc psi ->
  (forall w, In w ws -> row_wf n w /\ stabilises n w psi) -> acc_even acc ws ->
  stabilises n (fold_left rowsum_ag ws acc) psi.
Proof.
  induction ws as [|w ws IH]; intros acc Hwf Hs Hall He; cbn in *; auto.
  destruct He as [He1 He2]. destruct (Hall w (or_introl eq_refl)) as [Hw Sw].
  apply IH; auto.
  - now apply row_wf_rowsum.
  - now apply rowsum_stabilises.
Qed.

(* ---------------------------------------------------------------- commutation relations under the rules *)
Definition w1 (a b c d : bool) : bool := xorb (a && d) (b && c).    (* local symplectic product *)

Definition symp1_ok (f : loc1) : bool :=
  forallb (fun x => forallb (fun z => forallb (fun r => forallb (fun x2 => forallb (fun z2 => forallb (fun r2 =>
    let '(a, b, _) := f x z r in let '(c, d, _) := f x2 z2 r2 in
    Bool.eqb (w1 a b c d) (w1 x z x2 z2)) bools) bools) bools) bools) bools) bools.

Definition symp2_ok (f : loc2) : bool :=
  forallb (fun xc => forallb (fun zc => forallb (fun xt => forallb (fun zt => forallb (fun r =>
  forallb (fun xc2 => forallb (fun zc2 => forallb (fun xt2 => forallb (fun zt2 => forallb (fun r2 =>
    let '(a, b, c, d, _) := f xc zc xt zt r in let '(a2, b2, c2, d2, _) := f xc2 zc2 xt2 zt2 r2 in
    Bool.eqb (xorb (w1 a b a2 b2) (w1 c d c2 d2)) (xorb (w1 xc zc xc2 zc2) (w1 xt zt xt2 zt2)))
    bools) bools) bools) bools) bools) bools) bools) bools) bools) bools.

Lemma sympl_upd q : forall xa za xb zb a b c d,
  (q < length xa)%nat -> length za = length xa -> length xb = length xa -> length zb = length xa ->
  sympl (upd q a xa) (upd q b za) (upd q c xb) (upd q d zb)
  = xorb (xorb (sympl xa za xb zb) (w1 (bit q xa) (bit q za) (bit q xb) (bit q zb))) (w1 a b c d).
Proof.
  unfold bit, w1.
  induction q as [|q IH]; intros [|x xa] [|z za] [|x2 xb] [|z2 zb] a b c d Hq H1 H2 H3; cbn in *; try lia.
  - destruct x, z, x2, z2, a, b, c, d, (sympl xa za xb zb); reflexivity.
  - rewrite IH by lia.
    destruct x, z, x2, z2; cbn;
      destruct (sympl xa za xb zb), (nth q xa false), (nth q za false), (nth q xb false), (nth q zb false), a, b, c, d; reflexivity.
Qed.

Lemma symp1_sound f : symp1_ok f = true -> forall x z r x2 z2 r2,
  w1 (fst (fst (f x z r))) (snd (fst (f x z r))) (fst (fst (f x2 z2 r2))) (snd (fst (f x2 z2 r2))) = w1 x z x2 z2.
Proof.
  unfold symp1_ok. intros H x z r x2 z2 r2.
  rewrite forallb_forall in H. specialize (H x (in_bools x)).
  rewrite forallb_forall in H. specialize (H z (in_bools z)).
  rewrite forallb_forall in H. specialize (H r (in_bools r)).
  rewrite forallb_forall in H. specialize (H x2 (in_bools x2)).
  rewrite forallb_forall in H. specialize (H z2 (in_bools z2)).
  rewrite forallb_forall in H. specialize (H r2 (in_bools r2)).
  destruct (f x z r) as [[a b] r']. destruct (f x2 z2 r2) as [[c d] r2']. cbn [fst snd].
  now apply eqb_prop.
Qed.

Theorem anticommute_app1 n f q wa wb :
  symp1_ok f = true -> (q < n)%nat -> row_wf n wa -> row_wf n wb ->
  anticommute (row_app1 f q wa) (row_app1 f q wb) = anticommute wa wb.
Proof.
  intros Hf Hq [Hxa Hza] [Hxb Hzb].
  destruct wa as [[xa za] ra], wb as [[xb zb] rb]. cbn [fst snd] in *.
  pose proof (symp1_sound f Hf (bit q xa) (bit q za) ra (bit q xb) (bit q zb) rb) as HS.
  unfold anticommute, row_app1, rx, rz.
  destruct (f (bit q xa) (bit q za) ra) as [[a b] ra'].
  destruct (f (bit q xb) (bit q zb) rb) as [[c d] rb']. cbn [fst snd] in *.
  rewrite sympl_upd by lia. rewrite HS.
  destruct (sympl xa za xb zb), (w1 (bit q xa) (bit q za) (bit q xb) (bit q zb)); reflexivity.
Qed.

Lemma symp2_sound f : symp2_ok f = true -> forall xc zc xt zt r xc2 zc2 xt2 zt2 r2,
  let '(a, b, c, d, _) := f xc zc xt zt r in let '(a2, b2, c2, d2, _) := f xc2 zc2 xt2 zt2 r2 in
  xorb (w1 a b a2 b2) (w1 c d c2 d2) = xorb (w1 xc zc xc2 zc2) (w1 xt zt xt2 zt2).
Proof.
  unfold symp2_ok. intros H xc zc xt zt r xc2 zc2 xt2 zt2 r2.
  rewrite forallb_forall in H. specialize (H xc (in_bools xc)).
  rewrite forallb_forall in H. specialize (H zc (in_bools zc)).
  rewrite forallb_forall in H. specialize (H xt (in_bools xt)).
  rewrite forallb_forall in H. specialize (H zt (in_bools zt)).
  rewrite forallb_forall in H. specialize (H r (in_bools r)).
  rewrite forallb_forall in H. specialize (H xc2 (in_bools xc2)).
  rewrite forallb_forall in H. specialize (H zc2 (in_bools zc2)).
  rewrite forallb_forall in H. specialize (H xt2 (in_bools xt2)).
  rewrite forallb_forall in H. specialize (H zt2 (in_bools zt2)).
  rewrite forallb_forall in H. specialize (H r2 (in_bools r2)).
  destruct (f xc zc xt zt r) as [[[[a b] c] d] r']. destruct (f xc2 zc2 xt2 zt2 r2) as [[[[a2 b2] c2] d2] r2'].
  now apply eqb_prop.
Qed.

Theorem anticommute_app2 n f c t wa wb :
  symp2_ok f = true -> (c < n)%nat -> (t < n)%nat -> c <> t -> row_wf n wa -> row_wf n wb ->
  anticommute (row_app2 f c t wa) (row_app2 f c t wb) = anticommute wa wb.
Proof.
  intros Hf Hc Ht Hct [Hxa Hza] [Hxb Hzb].
  destruct wa as [[xa za] ra], wb as [[xb zb] rb]. cbn [fst snd] in *.
  pose proof (symp2_sound f Hf (bit c xa) (bit c za) (bit t xa) (bit t za) ra
                               (bit c xb) (bit c zb) (bit t xb) (bit t zb) rb) as HS.
  unfold anticommute, row_app2, rx, rz.
  destruct (f (bit c xa) (bit c za) (bit t xa) (bit t za) ra) as [[[[a b] c'] d] ra'].
  destruct (f (bit c xb) (bit c zb) (bit t xb) (bit t zb) rb) as [[[[a2 b2] c2] d2] rb']. cbn [fst snd] in *.
  rewrite sympl_upd by (rewrite ?length_upd; lia).
  rewrite !(bit_upd_other c t) by assumption.
  rewrite sympl_upd by lia.
  revert HS.
  generalize (sympl xa za xb zb) (w1 (bit c xa) (bit c za) (bit c xb) (bit c zb))
             (w1 (bit t xa) (bit t za) (bit t xb) (bit t zb)) (w1 a b a2 b2) (w1 c' d c2 d2).
  intros s u v u' v' HS. destruct s, u, v, u', v'; cbn in *; congruence.
Qed.

(* all rules of the engine pass the local check *)
Theorem all_rules_symplectic :
  forallb symp1_ok [m_I; m_H; m_S; m_SDG; m_X; m_Y; m_Z; m_SX; m_SXDG; m_RY_pi; m_RY_3pi_2] = true
  /\ forallb symp2_ok ([m_CNOT; m_CZ; m_CY; m_SWAP; m_iSWAP; m_FSWAP; m_ECR]
       ++ map m_CRX_branch [0; 1; 2; 3]%nat ++ map m_CRY_branch [0; 1; 2; 3]%nat ++ map m_CRZ_branch [0; 1; 2; 3]%nat) = true.
Proof. split; vm_compute; reflexivity. Qed.

(* the relations of a tableau are preserved by an operation whose rule passes the local check *)
Definition op_symp (o : op) : bool := match o with Op1 f _ => symp1_ok f | Op2 f _ _ => symp2_ok f end.

Theorem tableau_inv_rules n o wa wb :
  op_symp o = true -> op_valid n o = true -> row_wf n wa -> row_wf n wb ->
  anticommute (row_op o wa) (row_op o wb) = anticommute wa wb.
Proof.
  intros Hs Hv Ha Hb. destruct o as [f q | f c t]; cbn in *.
  - apply Nat.ltb_lt in Hv. now apply (anticommute_app1 n).
  - apply andb_prop in Hv. destruct Hv as [Hv Hne]. apply andb_prop in Hv. destruct Hv as [Hc Ht].
    apply Nat.ltb_lt in Hc. apply Nat.ltb_lt in Ht. apply negb_true_iff in Hne. apply Nat.eqb_neq in Hne.
    now apply (anticommute_app2 n).
Qed.
