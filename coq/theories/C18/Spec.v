(* C18/Spec.v : textbook definitions the models are judged against.
   Partial trace over the qubit set S of an n-qubit operator:
       Tr_S rho = sum_k (I (x) <k|_S) rho (I (x) |k>_S)
   i.e. <b| Tr_S rho |c> = sum over all basis pairs x,y with  x|kept = b, y|kept = c, x|S = y|S
   of rho[x][y], where kept = the qubits not in S in ascending order.  S is a set: the order in
   which the caller lists it (and repetitions) cannot matter. *)
From Coq Require Import List Bool Arith Lia.
From QV Require Import Base.Mat C17.Alg C17.Model C18.Model.
Import ListNotations.

Section Spec.
  Context {T : Type} (K : ops T) (cj : T -> T).
  Notation mget := (mget K).
  Notation vget := (vget K).

  Definition ptrace_entry (n : nat) (S : list nat) (f : nat -> nat -> T) (b c : list bool) : T :=
    let kept := complement n S in
    lsum K (map (fun x => lsum K (map (fun y =>
      if beqb (sel kept x) b && beqb (sel kept y) c && beqb (sel S x) (sel S y)
      then f (idx x) (idx y) else zero K) (allbits n))) (allbits n)).
  Definition ptrace_spec (n : nat) (S : list nat) (f : nat -> nat -> T) : mat T :=
    let k := length (complement n S) in
    map (fun b => map (fun c => ptrace_entry n S f b c) (allbits k)) (allbits k).

  (* partial transpose on S:  <x| rho^{T_S} |y> = <x'| rho |y'>, x' = y on S and x elsewhere,
     y' = x on S and y elsewhere *)
  Definition ptranspose_entry (S : list nat) (rho : mat T) (x y : list bool) : T :=
    mget rho (idx (mixbits S x y)) (idx (mixbits S y x)).
End Spec.
