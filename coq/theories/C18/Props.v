From QV Require Import C18.ZiInst.
