(* C18/Props.v : the property theorems of C18 (statements; proofs are in Proofs*.v).
   Generic statements hold over every commutative semiring T with an additive, multiplicative
   involution cj (C with complex conjugation; the Gaussian integers of the correspondence runs). *)
From Coq Require Import List Bool Arith Lia Ring ZArith Reals Permutation.
From Coquelicot Require Import Coquelicot.
From QV Require Import Base.Mat Base.Zi C17.Alg C17.Model C17.ZiInst
  C18.Model C18.Spec C18.ZiInst C18.ProofsBits C18.ProofsPtrace C18.ProofsAlg C18.ProofsReal C18.ProofsSeed C18.ProofsFid.
Import ListNotations.
Close Scope R_scope.

Section Generic.
  Context {T : Type} (K : ops T) (cj : T -> T).
  Variable SR : semi_ring_theory (zero K) (one K) (add K) (mul K) (@eq T).
  Hypothesis cj0 : cj (zero K) = zero K.
  Hypothesis cj_add : forall a b, cj (add K a b) = add K (cj a) (cj b).
  Hypothesis cj_mul : forall a b, cj (mul K a b) = mul K (cj a) (cj b).
  Hypothesis cj_cj : forall a, cj (cj a) = a.

  (* partial_trace, density-matrix route (transpose by sorted(traced)+kept, reshape, einsum "abac->bc")
     = sum_k (I (x) <k|) rho (I (x) |k>), for every n and every duplicate-free in-range list of
     traced qubits IN ANY ORDER.  The real code rejects nothing here; out-of-range or repeated
     qubits make numpy raise. *)
  Theorem ptrace_ok : forall n S rho, NoDup S -> (forall q, In q S -> q < n) ->
    ptrace_dm K n S rho = ptrace_spec K n S (fun x y => mget K rho x y).
  Proof. intros. now apply (ptrace_dm_ok K SR). Qed.

  (* state-vector route: tensordot(psi, conj psi, axes=[traced, traced]) = partial trace of |psi><psi| *)
  Theorem ptrace_statevector_ok : forall n S psi, NoDup S -> (forall q, In q S -> q < n) ->
    ptrace_sv K cj n S psi
    = ptrace_spec K n S (fun x y => mul K (vget K psi x) (cj (vget K psi y))).
  Proof. intros. now apply (ptrace_sv_ok K cj SR). Qed.

  (* the result does not depend on the order in which the traced qubits are listed *)
  Theorem ptrace_order_irrelevant : forall n S S' rho psi, NoDup S -> (forall q, In q S -> q < n) ->
    Permutation S' S ->
    ptrace_dm K n S' rho = ptrace_dm K n S rho /\ ptrace_sv K cj n S' psi = ptrace_sv K cj n S psi.
  Proof.
    intros n S S' rho psi Hnd Hlt Hp.
    assert (Hnd' : NoDup S') by (apply (Permutation_NoDup (Permutation_sym Hp) Hnd)).
    assert (Hlt' : forall q, In q S' -> q < n) by (intros q Hq; apply Hlt; apply (Permutation_in _ Hp Hq)).
    rewrite (ptrace_dm_ok K SR n S' rho Hnd' Hlt'), (ptrace_dm_ok K SR n S rho Hnd Hlt).
    rewrite (ptrace_sv_ok K cj SR n S' psi Hnd' Hlt'), (ptrace_sv_ok K cj SR n S psi Hnd Hlt).
    split; now apply ptrace_spec_perm.
  Qed.

  (* partial_transpose: entry formula (definitional) *)
  Theorem ptranspose_ok : forall n S rho,
    ptranspose K n S rho
    = map (fun r => map (fun c => ptranspose_entry K S rho r c) (allbits n)) (allbits n).
  Proof. reflexivity. Qed.

  (* fidelity shortcut for a pure argument: tr(|psi><psi| sigma) = <psi|sigma|psi> *)
  Theorem fidelity_pure_shortcut : forall d psi sigma, length psi = d ->
    fid_trace K d (outer K psi (vconj cj psi)) sigma = expect K cj d psi sigma.
  Proof. intros. now apply (fid_trace_pure K cj SR cj0). Qed.

  (* purity of |psi><psi| is <psi|psi>^2 *)
  Theorem purity_of_pure_state : forall d psi, length psi = d ->
    purity_dm K d (outer K psi (vconj cj psi)) = mul K (norm2 K cj psi) (norm2 K cj psi).
  Proof. intros. now apply (purity_pure K cj SR cj0). Qed.

  (* process_fidelity(L) = Re tr(L) / d^2: for L = kraus_to_liouville(Ks) (row or column order) the trace is
     sum_K tr(K) conj(tr K), i.e. F_pro(E, id) = (1/d^2) sum_K |tr K|^2 -- every dimension *)
  Theorem process_fidelity_from_kraus : forall col d Ks,
    trace K (d * d) (kraus_to_liouville K cj col d Ks)
    = lsum K (map (fun U => mul K (trace K d U) (cj (trace K d U))) Ks).
  Proof. intros. now apply (liouville_trace_from_kraus K cj SR cj0 cj_add). Qed.

  (* random_density_matrix / random_hermitian(semidefinite): G = A A^dagger is Hermitian, ... *)
  Theorem generator_hermitian : forall d r A i j, i < d -> j < d ->
    mget K (gram K cj d r A) i j = cj (mget K (gram K cj d r A) j i).
  Proof. intros. now apply (gram_hermitian K cj SR cj0 cj_add cj_mul cj_cj). Qed.

  (* ... x^dagger G x is a sum of squared moduli ... *)
  Theorem generator_psd : forall d r A x,
    quadform K cj d x (gram K cj d r A)
    = bsum K r (fun k => let w := bsum K d (fun i => mul K (cj (vget K x i)) (mget K A i k)) in mul K w (cj w)).
  Proof. intros. now apply (gram_psd K cj SR cj0 cj_add cj_mul cj_cj). Qed.

  (* ... and its trace is the sum of the squared moduli of the entries of A *)
  Theorem generator_trace : forall d r A,
    trace K d (gram K cj d r A) = bsum K d (fun i => bsum K r (fun k => mul K (mget K A i k) (cj (mget K A i k)))).
  Proof. intros. now apply gram_trace. Qed.
End Generic.
Print Assumptions ptrace_ok.
Print Assumptions ptrace_statevector_ok.
Print Assumptions ptrace_order_irrelevant.
Print Assumptions ptranspose_ok.
Print Assumptions fidelity_pure_shortcut.
Print Assumptions purity_of_pure_state.
Print Assumptions process_fidelity_from_kraus.
Print Assumptions generator_hermitian.
Print Assumptions generator_psd.
Print Assumptions generator_trace.

(* non-vacuity of the generic hypotheses: Gaussian integers *)
Example ptrace_ok_Zi : forall n S rho, NoDup S -> (forall q, In q S -> q < n) ->
  z_ptrace_dm n S rho = z_ptrace_spec_dm n S rho.
Proof. intros. now apply (ptrace_ok Ziops Zi_SR). Qed.
Example ptrace_ok_instance :
  z_ptrace_dm 2 [1] [[(1,0);(2,0);(3,0);(4,0)];[(5,0);(6,0);(7,0);(8,0)];[(9,0);(1,1);(2,2);(3,3)];[(4,4);(5,5);(6,6);(7,7)]]%Z
  = [[(7,0);(11,0)];[(14,5);(9,9)]]%Z.
Proof. vm_compute. reflexivity. Qed.

(* partial transpose: the index exchange is an involution, is the identity on the empty set and the
   full transpose on all qubits *)
Theorem ptranspose_index_involution : forall S x y, length x = length y ->
  mixbits S (mixbits S x y) (mixbits S y x) = x /\ mixbits [] x y = x.
Proof. intros. split; [now apply mixbits_invol|apply mixbits_nil]. Qed.
Print Assumptions ptranspose_index_involution.

(* over the Gaussian integers: x^dagger (A A^dagger) x is a non-negative real number *)
Theorem generator_psd_gaussian_integers : forall d r A x,
  (0 <= fst (quadform Ziops zi_conj d x (gram Ziops zi_conj d r A)))%Z
  /\ snd (quadform Ziops zi_conj d x (gram Ziops zi_conj d r A)) = 0%Z.
Proof. exact gram_psd_Zi. Qed.
Print Assumptions generator_psd_gaussian_integers.

(* ---- real-number statements (Reals / Coquelicot axioms) *)
Theorem stochastic_rows_normalised : forall l, rsum l <> 0%R ->
  rsum (map (fun x => (x / rsum l)%R) l) = 1%R.
Proof. exact row_normalised. Qed.
Print Assumptions stochastic_rows_normalised.

Theorem hellinger_fidelity_formula : forall pq,
  (forall x, In x pq -> (0 <= fst x)%R /\ (0 <= snd x)%R) ->
  rsum (map fst pq) = 1%R -> rsum (map snd pq) = 1%R ->
  hellinger_fidelity pq = (bhattacharyya pq ^ 2)%R.
Proof. exact hellinger_fidelity_is_bhattacharyya. Qed.
Print Assumptions hellinger_fidelity_formula.

Theorem tvd_symmetric_and_zero : forall pq l,
  tvd pq = tvd (map (fun x => (snd x, fst x)) pq) /\ tvd (map (fun x => (x, x)) l) = 0%R.
Proof. intros. split; [apply tvd_sym|apply tvd_same]. Qed.
Print Assumptions tvd_symmetric_and_zero.

(* classical_renyi_entropy, alpha = 0: log(count_nonzero p) is the Hartley entropy log |supp p| *)
Theorem renyi_alpha0_ok : forall p, renyi0_branch p = hartley p.
Proof. exact renyi_alpha0_branch_ok. Qed.
Print Assumptions renyi_alpha0_ok.

(* Tsallis: d/da sum p^a at a=1 is sum p ln p, so (1 - sum p^a)/(a-1) -> -sum p ln p (nats) *)
Theorem tsallis_limit : forall p, (forall x, In x p -> (0 < x)%R) -> is_derive (powsum p) 1%R (plnp p).
Proof. exact tsallis_limit_derivative. Qed.
Print Assumptions tsallis_limit.
Theorem tsallis_alpha1_base2_refuted :
  exists p, rsum p = 1%R /\ (forall x, In x p -> (0 < x)%R) /\ (- (plnp p) / ln 2 <> - plnp p)%R.
Proof. exact tsallis_alpha1_branch_refuted. Qed.
Print Assumptions tsallis_alpha1_base2_refuted.

(* ---- seed handling *)
Theorem seed_int_deterministic : forall w w' s k k',
  fst (call w (SInt s) k) = fst (call w' (SInt s) k') /\ fst (call w (SInt s) k) = (user_stream s, 0)
  /\ snd (call w (SInt s) k) = w.
Proof. exact int_seed_deterministic. Qed.
Print Assumptions seed_int_deterministic.

Theorem seed_generator_advanced_not_reseeded : forall w h k1 k2, h < length (gens w) ->
  let g := nth h (gens w) (mkgen 0 0) in
  fst (call w (SGen h) k1) = (stream g, pos g)
  /\ fst (call (snd (call w (SGen h) k1)) (SGen h) k2) = (stream g, pos g + k1).
Proof.
  intros w h k1 k2 H. split; [apply (generator_advanced w h k1 H)|now apply generator_never_reseeded].
Qed.
Print Assumptions seed_generator_advanced_not_reseeded.

Theorem seed_history_invariant : forall cs w h,
  stream (nth h (gens (final_world w cs)) (mkgen 0 0)) = stream (nth h (gens w) (mkgen 0 0))
  /\ pos (nth h (gens w) (mkgen 0 0)) <= pos (nth h (gens (final_world w cs)) (mkgen 0 0)).
Proof. exact history_invariant. Qed.
Print Assumptions seed_history_invariant.
