(* C18/Model.v : executable models of the index bookkeeping in
   qibo.quantum_info.linalg_operations (partial_trace, partial_transpose, the matricisation of
   schmidt_decomposition), of the algebraic measures of metrics.py that need no spectrum, of the
   classical string/distribution measures of utils.py on exact data, and of the seed handling of
   backends/__init__.py:_check_backend_and_local_state.  No proofs here.
   Basis states are bit lists, qubit 0 first (= most significant bit of the flat index). *)
From Coq Require Import List Bool Arith Lia ZArith.
From QV Require Import Base.Mat C17.Alg C17.Model.
Import ListNotations.

(* ---------- qubit bookkeeping *)
Fixpoint index_of (q : nat) (l : list nat) : nat :=
  match l with [] => 0 | x :: l' => if Nat.eqb x q then 0 else S (index_of q l') end.
(* the bit string x (length n) with  sel order x = v :  bit q of x is the bit of v at the position of q in order *)
Definition unsel (n : nat) (order : list nat) (v : list bool) : list bool :=
  map (fun q => nth (index_of q order) v false) (seq 0 n).
Definition memb (q : nat) (l : list nat) : bool := existsb (Nat.eqb q) l.
(* the qubits of 0..n-1 not in l, ascending  (tuple(set(range(n)) ^ set(l)) for l inside range(n)) *)
Definition complement (n : nat) (l : list nat) : list nat := filter (fun q => negb (memb q l)) (seq 0 n).
Fixpoint insert_sorted (x : nat) (l : list nat) : list nat :=
  match l with [] => [x] | y :: l' => if Nat.leb x y then x :: l else y :: insert_sorted x l' end.
Definition sort_nat (l : list nat) : list nat := fold_right insert_sorted [] l.

Section Model.
  Context {T : Type} (K : ops T) (cj : T -> T).
  Notation mget := (mget K).
  Notation vget := (vget K).

  (* both routes of partial_trace read the state through a qubit order [traced' ++ kept]:
       result[b][c] = sum_a  f (bits with traced' = a, kept = b) (bits with traced' = a, kept = c) *)
  Definition ptrace_gen (n : nat) (order : list nat) (s : nat) (f : nat -> nat -> T) : mat T :=
    let k := n - s in
    map (fun b => map (fun c =>
      lsum K (map (fun a => f (idx (unsel n order (a ++ b))) (idx (unsel n order (a ++ c)))) (allbits s)))
      (allbits k)) (allbits k).
  (* density-matrix route: transpose(sorted(traced) + kept + ...), reshape, einsum("abac->bc") *)
  Definition ptrace_dm (n : nat) (traced : list nat) (rho : mat T) : mat T :=
    ptrace_gen n (sort_nat traced ++ complement n traced) (length traced) (fun x y => mget rho x y).
  (* state-vector route: tensordot(psi, conj(psi), axes=[traced, traced]) *)
  Definition ptrace_sv (n : nat) (traced : list nat) (psi : vec T) : mat T :=
    ptrace_gen n (traced ++ complement n traced) (length traced)
      (fun x y => mul K (vget psi x) (cj (vget psi y))).

  (* partial_transpose(operator, partition): row bit q and column bit q exchanged for q in partition *)
  Definition mixbits (S : list nat) (x y : list bool) : list bool :=
    map (fun q => if memb q S then nth q y false else nth q x false) (seq 0 (length x)).
  Definition ptranspose (n : nat) (S : list nat) (rho : mat T) : mat T :=
    map (fun r => map (fun c => mget rho (idx (mixbits S r c)) (idx (mixbits S c r))) (allbits n)) (allbits n).

  (* schmidt_decomposition: reshape [2]*n, transpose(partition + rest), reshape (2^|partition|, -1) *)
  Definition matricize (n : nat) (part : list nat) (psi : vec T) : mat T :=
    let rest := complement n part in
    map (fun a => map (fun b => vget psi (idx (unsel n (part ++ rest) (a ++ b)))) (allbits (n - length part)))
        (allbits (length part)).

  (* ---------- measures that need no spectrum *)
  Definition trace (d : nat) (M : mat T) : T := bsum K d (fun i => mget M i i).
  (* purity(rho) = Tr(rho . rho) *)
  Definition purity_dm (d : nat) (rho : mat T) : T :=
    bsum K d (fun i => bsum K d (fun j => mul K (mget rho i j) (mget rho j i))).
  Definition norm2 (psi : vec T) : T := lsum K (map (fun x => mul K x (cj x)) psi).
  (* fidelity shortcut for a pure argument: Tr(rho sigma);  for state vectors |<psi|phi>|^2 *)
  Definition fid_trace (d : nat) (rho sigma : mat T) : T :=
    bsum K d (fun i => bsum K d (fun j => mul K (mget rho i j) (mget sigma j i))).
  Definition inner (psi phi : vec T) : T := dot K (vconj cj psi) phi.
  Definition fid_sv (psi phi : vec T) : T := let z := inner psi phi in mul K z (cj z).
  Definition expect (d : nat) (psi : vec T) (sigma : mat T) : T :=
    bsum K d (fun i => bsum K d (fun j => mul K (mul K (cj (vget psi i)) (mget sigma i j)) (vget psi j))).
  (* hilbert_schmidt_inner_product(A,B) = Tr(A^dagger B)  (the code returns its real part) *)
  Definition hs_inner (d : nat) (A B : mat T) : T :=
    bsum K d (fun i => bsum K d (fun j => mul K (cj (mget A j i)) (mget B j i))).
  (* generator post-condition: G = A A^dagger (rank columns) *)
  Definition gram (d r : nat) (A : mat T) : mat T :=
    mk d d (fun i j => bsum K r (fun k => mul K (mget A i k) (cj (mget A j k)))).
  Definition quadform (d : nat) (x : vec T) (G : mat T) : T :=
    bsum K d (fun i => bsum K d (fun j => mul K (mul K (cj (vget x i)) (mget G i j)) (vget x j))).
End Model.

(* ---------- classical measures on exact data *)
(* hamming_weight of an int = number of ones of its binary expansion; of a list/str = number of '1' *)
Definition hamming_weight_bits (b : list bool) : nat := length (filter (fun x => x) b).
Definition hamming_indexes (b : list bool) : list nat :=
  map fst (filter (fun p => snd p) (combine (seq 0 (length b)) b)).
Fixpoint pad_left (m : nat) (b : list bool) : list bool :=
  match m with O => b | S m' => false :: pad_left m' b end.
(* hamming_distance: left-pad the shorter string with zeros, count differing positions *)
Definition hamming_distance_bits (a b : list bool) : nat :=
  let m := Nat.max (length a) (length b) in
  let a' := pad_left (m - length a) a in
  let b' := pad_left (m - length b) b in
  hamming_weight_bits (map (fun p => xorb (fst p) (snd p)) (combine a' b')).
Fixpoint bits_of_pos (p : positive) : list bool :=
  match p with xH => [true] | xO p' => bits_of_pos p' ++ [false] | xI p' => bits_of_pos p' ++ [true] end.
Definition bits_of_N (z : N) : list bool := match z with N0 => [false] | Npos p => bits_of_pos p end.

(* total_variation_distance on distributions with a common denominator den:
   numerators ps, qs  ->  numerator of the result over 2*den *)
Definition tvd_num (ps qs : list Z) : Z :=
  fold_right Z.add 0%Z (map (fun pq => Z.abs (fst pq - snd pq)) (combine ps qs)).

(* ---------- seed handling: _check_backend_and_local_state *)
(* a numpy Generator is abstracted as (stream id, position); default_rng(s) = (s, 0);
   default_rng(None) takes a fresh stream id from the environment (oracle). *)
Inductive seedarg := SNone | SInt (s : nat) | SGen (h : nat).
Record genstate := mkgen { stream : nat; pos : nat }.
Record world := mkworld { gens : list genstate; entropy : nat }.
Definition user_stream (s : nat) : nat := 2 * s.           (* streams of int seeds *)
Definition os_stream (e : nat) : nat := 2 * e + 1.          (* streams of seed=None, all distinct *)
Fixpoint set_nth {A} (k : nat) (x : A) (l : list A) : list A :=
  match l, k with [] , _ => [] | _ :: l', O => x :: l' | y :: l', S k' => y :: set_nth k' x l' end.
(* one call of a generator function that draws k numbers; returns (stream, start position) it read
   and the world afterwards *)
Definition call (w : world) (a : seedarg) (k : nat) : (nat * nat) * world :=
  match a with
  | SInt s => ((user_stream s, 0), w)
  | SNone => ((os_stream (entropy w), 0), mkworld (gens w) (S (entropy w)))
  | SGen h => let g := nth h (gens w) (mkgen 0 0) in
              ((stream g, pos g), mkworld (set_nth h (mkgen (stream g) (pos g + k)) (gens w)) (entropy w))
  end.

(* a history of calls, each drawing one unit; the (stream, start position) every call reads *)
Fixpoint run_calls (w : world) (cs : list seedarg) : list (nat * nat) :=
  match cs with
  | [] => []
  | a :: cs' => let rw := call w a 1 in fst rw :: run_calls (snd rw) cs'
  end.
Fixpoint reads_eqb (l1 l2 : list (nat * nat)) : bool :=
  match l1, l2 with
  | [], [] => true
  | (a, b) :: l1', (c, d) :: l2' => Nat.eqb a c && Nat.eqb b d && reads_eqb l1' l2'
  | _, _ => false
  end.
