(* C18/ProofsPtrace.v : both routes of partial_trace compute the textbook partial trace, for every
   number of qubits and every duplicate-free list of traced qubits in ANY order. *)
From Coq Require Import List Bool Arith Lia Permutation Ring.
From QV Require Import Base.Mat C17.Alg C17.Model C18.Model C18.Spec C18.ProofsBits.
Import ListNotations.

Lemma app_inj_len {A} (a a' b b' : list A) : length a = length a' -> a ++ b = a' ++ b' -> a = a' /\ b = b'.
Proof.
  revert a'. induction a as [|x a IH]; intros [|y a'] Hl E; try discriminate.
  - now split.
  - cbn [app] in E. inversion E; subst. destruct (IH a') as [-> ->]; [now inversion Hl|assumption|now split].
Qed.

(* ---------- qubit lists *)
Lemma memb_In q l : memb q l = true <-> In q l.
Proof.
  unfold memb. rewrite existsb_exists. split.
  - intros [x [Hx E]]. apply Nat.eqb_eq in E. now subst.
  - intros H. exists q. split; [exact H|apply Nat.eqb_refl].
Qed.

Lemma filter_partition_perm {A} (p : A -> bool) l :
  Permutation (filter p l ++ filter (fun x => negb (p x)) l) l.
Proof.
  induction l as [|x l IH]; cbn [filter]; [constructor|].
  destruct (p x); cbn [negb app].
  - now constructor.
  - apply Permutation_sym. apply Permutation_cons_app. now apply Permutation_sym.
Qed.

Lemma order_perm n S S' : NoDup S -> (forall q, In q S -> q < n) -> Permutation S' S ->
  Permutation (S' ++ complement n S) (seq 0 n).
Proof.
  intros Hnd Hlt Hp. unfold complement.
  apply (Permutation_trans (l' := filter (fun q => memb q S) (seq 0 n) ++ filter (fun q => negb (memb q S)) (seq 0 n)));
    [|apply filter_partition_perm].
  apply Permutation_app_tail. apply (Permutation_trans Hp).
  apply NoDup_Permutation; [exact Hnd|apply NoDup_filter, seq_NoDup|].
  intros x. rewrite filter_In, memb_In, in_seq. split; [intros H; split; [specialize (Hlt x H); lia|exact H]|tauto].
Qed.

Lemma complement_length n S : NoDup S -> (forall q, In q S -> q < n) ->
  length (complement n S) = n - length S.
Proof.
  intros Hnd Hlt. pose proof (Permutation_length (order_perm n S S Hnd Hlt (Permutation_refl S))) as H.
  rewrite app_length, seq_length in H. lia.
Qed.

Lemma insert_sorted_perm x l : Permutation (insert_sorted x l) (x :: l).
Proof.
  induction l as [|y l IH]; cbn [insert_sorted]; [apply Permutation_refl|].
  destruct (Nat.leb x y); [apply Permutation_refl|].
  apply (Permutation_trans (l' := y :: x :: l)); [now constructor|constructor].
Qed.
Lemma sort_nat_perm l : Permutation (sort_nat l) l.
Proof.
  induction l as [|x l IH]; cbn [sort_nat fold_right]; [constructor|].
  apply (Permutation_trans (insert_sorted_perm x _)). now constructor.
Qed.

Lemma beqb_sel_forallb l x y :
  beqb (sel l x) (sel l y) = forallb (fun q => Bool.eqb (nth q x false) (nth q y false)) l.
Proof. induction l as [|q l IH]; cbn [sel map beqb forallb]; [reflexivity|]. unfold sel in IH. now rewrite IH. Qed.

Lemma forallb_perm {A} (p : A -> bool) l l' : Permutation l l' -> forallb p l = forallb p l'.
Proof.
  induction 1; cbn [forallb]; try reflexivity.
  - now rewrite IHPermutation.
  - now rewrite !andb_assoc, (andb_comm (p y)).
  - now rewrite IHPermutation1.
Qed.

Lemma beqb_sel_perm l l' x y : Permutation l l' -> beqb (sel l x) (sel l y) = beqb (sel l' x) (sel l' y).
Proof. intros H. rewrite !beqb_sel_forallb. now apply forallb_perm. Qed.

Section Ptrace.
  Context {T : Type} (K : ops T).
  Variable SR : semi_ring_theory (zero K) (one K) (add K) (mul K) (@eq T).
  Add Ring TRp : SR.
  Notation lsum := (lsum K).

  (* indicator sums with side conditions *)
  Lemma lsum_ind3 {A} (l : list A) (p : A -> bool) (x0 : A) (g : A -> T) (q1 q2 : bool) :
    NoDup l -> In x0 l -> (forall x, In x l -> (p x = true <-> x = x0)) ->
    lsum (map (fun x => if q1 && p x && q2 then g x else zero K) l) = if q1 && q2 then g x0 else zero K.
  Proof.
    intros Hnd Hin Hp. destruct q1, q2; cbn [andb].
    - rewrite <- (lsum_indicator K SR l p x0 g Hnd Hin Hp). apply (lsum_map_ext K). intros x _. now rewrite andb_true_r.
    - transitivity (lsum (map (fun _ : A => zero K) l)); [|apply (lsum_map_zero K SR)].
      apply (lsum_map_ext K). intros x _. now rewrite andb_false_r.
    - apply (lsum_map_zero K SR).
    - apply (lsum_map_zero K SR).
  Qed.

  Lemma lsum_ind2 {A} (l : list A) (p : A -> bool) (x0 : A) (g : A -> T) (q1 : bool) :
    NoDup l -> In x0 l -> (forall x, In x l -> (p x = true <-> x = x0)) ->
    lsum (map (fun x => if q1 && p x then g x else zero K) l) = if q1 then g x0 else zero K.
  Proof.
    intros Hnd Hin Hp. destruct q1; cbn [andb].
    - apply (lsum_indicator K SR l p x0 g Hnd Hin Hp).
    - apply (lsum_map_zero K SR).
  Qed.

  Variables (n : nat) (S S' : list nat).
  Hypothesis Hnd : NoDup S.
  Hypothesis Hlt : forall q, In q S -> q < n.
  Hypothesis HS' : Permutation S' S.
  Let kept := complement n S.
  Let order := S' ++ kept.
  Let s := length S.
  Let k := n - s.

  Lemma Horder : Permutation order (seq 0 n).
  Proof. apply order_perm; assumption. Qed.
  Lemma s_le : s + k = n.
  Proof.
    pose proof (Permutation_length Horder) as H. unfold order in H.
    rewrite app_length, seq_length, (Permutation_length HS') in H. fold s in H.
    pose proof (complement_length n S Hnd Hlt). fold kept s in H0. unfold k. lia.
  Qed.
  Lemma S'_len : length S' = s.
  Proof. apply (Permutation_length HS'). Qed.

  (* the bits of unsel order (a ++ b) on S' are a, on kept are b *)
  Lemma sel_parts a b : length a = s -> length b = k ->
    sel S' (unsel n order (a ++ b)) = a /\ sel kept (unsel n order (a ++ b)) = b.
  Proof.
    intros Ha Hb.
    assert (E : sel order (unsel n order (a ++ b)) = a ++ b).
    { apply (sel_unsel n order Horder). rewrite app_length, Ha, Hb. apply s_le. }
    unfold order in E at 1. rewrite sel_app in E.
    apply app_inj_len in E; [exact E|]. now rewrite sel_length, S'_len.
  Qed.

  Theorem ptrace_entry_ok (f : nat -> nat -> T) b c : length b = k -> length c = k ->
    ptrace_entry K n S f b c
    = lsum (map (fun a => f (idx (unsel n order (a ++ b))) (idx (unsel n order (a ++ c)))) (allbits s)).
  Proof.
    intros Hb Hc. unfold ptrace_entry. fold kept.
    (* reindex and split the outer sum *)
    rewrite (lsum_allbits_unsel K SR n order _ Horder). rewrite <- s_le at 1.
    rewrite (lsum_allbits_split K SR s k).
    apply (lsum_map_ext K). intros a Ha. apply allbits_length in Ha.
    (* for each outer (a, b'): reindex and split the inner sum, then evaluate the indicator *)
    transitivity (lsum (map (fun b' => if beqb b' b then f (idx (unsel n order (a ++ b'))) (idx (unsel n order (a ++ c))) else zero K) (allbits k))).
    2:{ apply (lsum_indicator K SR (allbits k) (fun b' => beqb b' b) b
                 (fun b' => f (idx (unsel n order (a ++ b'))) (idx (unsel n order (a ++ c)))));
          [apply allbits_NoDup|now apply allbits_complete|].
        intros x _. apply beqb_true_iff. }
    apply (lsum_map_ext K). intros b' Hb'. apply allbits_length in Hb'.
    rewrite (lsum_allbits_unsel K SR n order _ Horder). rewrite <- s_le at 1.
    rewrite (lsum_allbits_split K SR s k).
    destruct (sel_parts a b' Ha Hb') as [E1 E2]. 
    transitivity (lsum (map (fun a' => if beqb b' b && beqb a' a then f (idx (unsel n order (a ++ b'))) (idx (unsel n order (a' ++ c))) else zero K) (allbits s))).
    - apply (lsum_map_ext K). intros a' Ha'. apply allbits_length in Ha'.
      transitivity (lsum (map (fun c' => if beqb b' b && beqb c' c && beqb a' a
                                          then f (idx (unsel n order (a ++ b'))) (idx (unsel n order (a' ++ c'))) else zero K) (allbits k))).
      + apply (lsum_map_ext K). intros c' Hc'. apply allbits_length in Hc'.
        destruct (sel_parts a' c' Ha' Hc') as [E3 E4]. 
        cbv beta. rewrite (beqb_sel_perm S S' _ _ (Permutation_sym HS')). rewrite E1, E2, E3, E4.
        replace (beqb a a') with (beqb a' a); [reflexivity|].
        destruct (beqb a' a) eqn:Ea; destruct (beqb a a') eqn:Eb; try reflexivity.
        * apply beqb_true_iff in Ea. subst. now rewrite beqb_refl in Eb.
        * apply beqb_true_iff in Eb. subst. now rewrite beqb_refl in Ea.
      + apply (lsum_ind3 (allbits k) (fun c' => beqb c' c) c
                 (fun c' => f (idx (unsel n order (a ++ b'))) (idx (unsel n order (a' ++ c'))))).
        * apply allbits_NoDup.
        * now apply allbits_complete.
        * intros x _. apply beqb_true_iff.
    - apply (lsum_ind2 (allbits s) (fun a' => beqb a' a) a
               (fun a' => f (idx (unsel n order (a ++ b'))) (idx (unsel n order (a' ++ c))))).
      + apply allbits_NoDup.
      + now apply allbits_complete.
      + intros x _. apply beqb_true_iff.
  Qed.
End Ptrace.

Lemma memb_perm q S S' : Permutation S' S -> memb q S' = memb q S.
Proof.
  intros H. destruct (memb q S') eqn:E1; destruct (memb q S) eqn:E2; try reflexivity.
  - apply memb_In in E1. apply (Permutation_in _ H) in E1. apply memb_In in E1. congruence.
  - apply memb_In in E2. apply (Permutation_in _ (Permutation_sym H)) in E2. apply memb_In in E2. congruence.
Qed.
Lemma complement_perm n S S' : Permutation S' S -> complement n S' = complement n S.
Proof. intros H. unfold complement. apply filter_ext. intros q. f_equal. now apply memb_perm. Qed.

(* ---------- the two routes of the implementation *)
Section Routes.
  Context {T : Type} (K : ops T) (cj : T -> T).
  Variable SR : semi_ring_theory (zero K) (one K) (add K) (mul K) (@eq T).

  Lemma ptrace_gen_ok n S S' (f : nat -> nat -> T) :
    NoDup S -> (forall q, In q S -> q < n) -> Permutation S' S ->
    ptrace_gen K n (S' ++ complement n S) (length S) f = ptrace_spec K n S f.
  Proof.
    intros Hnd Hlt Hp. unfold ptrace_gen, ptrace_spec. cbv zeta.
    rewrite (complement_length n S Hnd Hlt).
    apply map_ext_in. intros b Hb. apply map_ext_in. intros c Hc.
    apply allbits_length in Hb. apply allbits_length in Hc.
    symmetry. apply (ptrace_entry_ok K SR n S S' Hnd Hlt Hp f b c Hb Hc).
  Qed.

  (* the textbook value depends on the SET of traced qubits only *)
  Lemma ptrace_spec_perm n S S' (f : nat -> nat -> T) : Permutation S' S ->
    ptrace_spec K n S' f = ptrace_spec K n S f.
  Proof.
    intros Hp. unfold ptrace_spec, ptrace_entry. cbv zeta. rewrite (complement_perm n S S' Hp).
    apply map_ext. intros b. apply map_ext. intros c.
    apply (lsum_map_ext K). intros x _. apply (lsum_map_ext K). intros y _.
    now rewrite (beqb_sel_perm S' S x y Hp).
  Qed.

  Theorem ptrace_dm_ok n S rho : NoDup S -> (forall q, In q S -> q < n) ->
    ptrace_dm K n S rho = ptrace_spec K n S (fun x y => mget K rho x y).
  Proof.
    intros Hnd Hlt. unfold ptrace_dm.
    rewrite <- (Permutation_length (sort_nat_perm S)) at 1.
    pose proof (ptrace_gen_ok n S (sort_nat S) (fun x y => mget K rho x y) Hnd Hlt (sort_nat_perm S)) as H.
    rewrite <- H. now rewrite (Permutation_length (sort_nat_perm S)).
  Qed.

  Theorem ptrace_sv_ok n S psi : NoDup S -> (forall q, In q S -> q < n) ->
    ptrace_sv K cj n S psi = ptrace_spec K n S (fun x y => mul K (vget K psi x) (cj (vget K psi y))).
  Proof.
    intros Hnd Hlt. unfold ptrace_sv. apply ptrace_gen_ok; [assumption|assumption|apply Permutation_refl].
  Qed.
End Routes.
