(* C18/ProofsBits.v : bit strings, qubit selections and their inverses; sums over all bit strings
   are invariant under a permutation of the qubits. *)
From Coq Require Import List Bool Arith Lia Permutation Ring.
From QV Require Import Base.Mat C17.Alg C17.Model C18.Model.
Import ListNotations.

(* ---------- allbits *)
Lemma allbits_length n : forall x, In x (allbits n) -> length x = n.
Proof.
  induction n as [|n IH]; intros x H; cbn [allbits] in H.
  - destruct H as [<-|[]]. reflexivity.
  - apply in_app_or in H. destruct H as [H|H]; apply in_map_iff in H; destruct H as [y [<- Hy]];
      cbn [length]; f_equal; now apply IH.
Qed.

Lemma allbits_complete n : forall x, length x = n -> In x (allbits n).
Proof.
  induction n as [|n IH]; intros x H.
  - destruct x; [left; reflexivity|discriminate].
  - destruct x as [|b x]; [discriminate|]. cbn [allbits]. apply in_or_app.
    destruct b; [right|left]; apply in_map; apply IH; now inversion H.
Qed.

Lemma NoDup_map_inj {A B} (f : A -> B) l :
  (forall x y, In x l -> In y l -> f x = f y -> x = y) -> NoDup l -> NoDup (map f l).
Proof.
  intros Hinj Hnd. induction Hnd as [|x l Hx Hnd IH]; cbn [map]; constructor.
  - intros Hin. apply in_map_iff in Hin. destruct Hin as [y [Hy Hyl]].
    assert (y = x) by (apply Hinj; [now right|now left|exact Hy]). subst. contradiction.
  - apply IH. intros a b Ha Hb. apply Hinj; now right.
Qed.

Lemma NoDup_app_intro {A} (l1 l2 : list A) :
  NoDup l1 -> NoDup l2 -> (forall x, In x l1 -> In x l2 -> False) -> NoDup (l1 ++ l2).
Proof.
  intros H1 H2 Hd. induction H1 as [|x l Hx H1 IH]; cbn [app]; [exact H2|].
  constructor.
  - intros Hin. apply in_app_or in Hin. destruct Hin as [Hin|Hin]; [contradiction|].
    apply (Hd x); [now left|exact Hin].
  - apply IH. intros y Hy. apply Hd. now right.
Qed.

Lemma allbits_NoDup n : NoDup (allbits n).
Proof.
  induction n as [|n IH]; cbn [allbits]; [constructor; [intros []|constructor]|].
  apply NoDup_app_intro.
  - apply NoDup_map_inj; [|exact IH]. intros x y _ _ H. now inversion H.
  - apply NoDup_map_inj; [|exact IH]. intros x y _ _ H. now inversion H.
  - intros x H1 H2. apply in_map_iff in H1. apply in_map_iff in H2.
    destruct H1 as [a [<- _]]. destruct H2 as [b [Hb _]]. discriminate.
Qed.

Lemma allbits_app s k :
  allbits (s + k) = flat_map (fun a => map (app a) (allbits k)) (allbits s).
Proof.
  induction s as [|s IH]; cbn [allbits Nat.add flat_map].
  - rewrite app_nil_r. cbn [app]. now rewrite map_id.
  - rewrite IH. rewrite flat_map_app. f_equal.
    + rewrite !flat_map_concat_map, concat_map, !map_map. f_equal. apply map_ext.
      intros a. rewrite !map_map. reflexivity.
    + rewrite !flat_map_concat_map, concat_map, !map_map. f_equal. apply map_ext.
      intros a. rewrite !map_map. reflexivity.
Qed.

(* ---------- beqb *)
Lemma beqb_true_iff : forall x y, beqb x y = true <-> x = y.
Proof.
  induction x as [|a x IH]; intros [|b y]; cbn [beqb]; split; intros H; try reflexivity; try discriminate.
  - apply andb_true_iff in H. destruct H as [H1 H2]. apply eqb_prop in H1. apply IH in H2. now subst.
  - inversion H; subst. apply andb_true_iff. split; [apply eqb_reflx|now apply IH].
Qed.
Lemma beqb_refl x : beqb x x = true.
Proof. now apply beqb_true_iff. Qed.

(* ---------- index_of, sel, unsel *)
Lemma index_of_nth order : NoDup order -> forall k, k < length order ->
  index_of (nth k order 0) order = k.
Proof.
  intros Hnd. induction Hnd as [|x l Hx Hnd IH]; intros k Hk; [cbn in Hk; lia|].
  destruct k as [|k]; cbn [nth index_of].
  - now rewrite Nat.eqb_refl.
  - cbn [length] in Hk. destruct (Nat.eqb_spec x (nth k l 0)) as [E|_].
    + exfalso. apply Hx. rewrite E. apply nth_In. lia.
    + f_equal. apply IH. lia.
Qed.

Lemma nth_index_of order q : In q order ->
  index_of q order < length order /\ nth (index_of q order) order 0 = q.
Proof.
  induction order as [|x l IH]; intros H; [destruct H|].
  cbn [index_of]. destruct (Nat.eqb_spec x q) as [->|Hne].
  - cbn. split; [lia|reflexivity].
  - destruct H as [H|H]; [congruence|]. destruct (IH H) as [H1 H2]. cbn [length nth]. split; [lia|exact H2].
Qed.

Lemma sel_length qs x : length (sel qs x) = length qs.
Proof. unfold sel. apply map_length. Qed.
Lemma unsel_length n order v : length (unsel n order v) = n.
Proof. unfold unsel. now rewrite map_length, seq_length. Qed.
Lemma sel_app l1 l2 x : sel (l1 ++ l2) x = sel l1 x ++ sel l2 x.
Proof. unfold sel. apply map_app. Qed.

Lemma nth_sel qs x k : k < length qs -> nth k (sel qs x) false = nth (nth k qs 0) x false.
Proof.
  intros H. unfold sel. rewrite (nth_indep _ false (nth 0 x false)) by (now rewrite map_length).
  exact (map_nth (fun q => nth q x false) qs 0 k).
Qed.

Lemma nth_unsel n order v q : q < n -> nth q (unsel n order v) false = nth (index_of q order) v false.
Proof.
  intros H. unfold unsel.
  rewrite (nth_indep _ false (nth (index_of 0 order) v false)) by (now rewrite map_length, seq_length).
  rewrite (map_nth (fun q => nth (index_of q order) v false) (seq 0 n) 0 q). now rewrite seq_nth.
Qed.

Section Perm.
  Variables (n : nat) (order : list nat).
  Hypothesis Hperm : Permutation order (seq 0 n).

  Lemma order_length : length order = n.
  Proof. rewrite (Permutation_length Hperm). apply seq_length. Qed.
  Lemma order_NoDup : NoDup order.
  Proof. apply (Permutation_NoDup (Permutation_sym Hperm)). apply seq_NoDup. Qed.
  Lemma order_in q : In q order <-> q < n.
  Proof.
    split; intros H.
    - apply (Permutation_in _ Hperm) in H. apply in_seq in H. lia.
    - apply (Permutation_in _ (Permutation_sym Hperm)). apply in_seq. lia.
  Qed.

  Lemma sel_unsel v : length v = n -> sel order (unsel n order v) = v.
  Proof.
    intros Hv. apply (nth_ext _ _ false false); [now rewrite sel_length, order_length|].
    intros k Hk. rewrite sel_length in Hk. rewrite nth_sel by exact Hk.
    assert (Hq : nth k order 0 < n) by (apply order_in; now apply nth_In).
    rewrite nth_unsel by exact Hq. now rewrite index_of_nth by (exact order_NoDup || exact Hk).
  Qed.

  Lemma unsel_sel x : length x = n -> unsel n order (sel order x) = x.
  Proof.
    intros Hx. apply (nth_ext _ _ false false); [now rewrite unsel_length|].
    intros q Hq. rewrite unsel_length in Hq. rewrite nth_unsel by exact Hq.
    destruct (nth_index_of order q) as [H1 H2]; [now apply order_in|].
    rewrite nth_sel by exact H1. now rewrite H2.
  Qed.

  Lemma unsel_perm : Permutation (map (unsel n order) (allbits n)) (allbits n).
  Proof.
    apply NoDup_Permutation.
    - apply NoDup_map_inj; [|apply allbits_NoDup]. intros x y Hx Hy E.
      rewrite <- (sel_unsel x), <- (sel_unsel y) by (now apply allbits_length). now rewrite E.
    - apply allbits_NoDup.
    - intros x. split; intros H.
      + apply in_map_iff in H. destruct H as [v [<- _]]. apply allbits_complete, unsel_length.
      + apply in_map_iff. exists (sel order x). split.
        * apply unsel_sel. now apply allbits_length.
        * apply allbits_complete. rewrite sel_length. exact order_length.
  Qed.
End Perm.

(* ---------- sums over lists in a commutative semiring *)
Section Sums.
  Context {T : Type} (K : ops T).
  Variable SR : semi_ring_theory (zero K) (one K) (add K) (mul K) (@eq T).
  Add Ring TRb : SR.
  Notation lsum := (lsum K).

  Lemma lsum_perm l l' : Permutation l l' -> lsum l = lsum l'.
  Proof.
    induction 1; cbn [Alg.lsum]; try reflexivity.
    - now rewrite IHPermutation.
    - ring.
    - now rewrite IHPermutation1.
  Qed.

  Lemma lsum_map_perm {A} (l l' : list A) (g : A -> T) :
    Permutation l l' -> lsum (map g l) = lsum (map g l').
  Proof. intros H. apply lsum_perm. now apply Permutation_map. Qed.

  Lemma lsum_flat_map {A B} (l : list A) (h : A -> list B) (g : B -> T) :
    lsum (map g (flat_map h l)) = lsum (map (fun a => lsum (map g (h a))) l).
  Proof.
    induction l as [|a l IH]; cbn [flat_map map Alg.lsum]; [reflexivity|].
    rewrite map_app, (lsum_app K SR), IH. reflexivity.
  Qed.

  (* reindexing the sum over all n-bit strings by a permutation of the qubits *)
  Lemma lsum_allbits_unsel n order (g : list bool -> T) : Permutation order (seq 0 n) ->
    lsum (map g (allbits n)) = lsum (map (fun v => g (unsel n order v)) (allbits n)).
  Proof.
    intros Hp. rewrite <- (lsum_map_perm _ _ g (unsel_perm n order Hp)). now rewrite map_map.
  Qed.

  (* splitting the bit string into a prefix of s bits and the rest *)
  Lemma lsum_allbits_split s k (g : list bool -> T) :
    lsum (map g (allbits (s + k)))
    = lsum (map (fun a => lsum (map (fun b => g (a ++ b)) (allbits k))) (allbits s)).
  Proof.
    rewrite allbits_app, lsum_flat_map. apply (lsum_map_ext K). intros a _. now rewrite map_map.
  Qed.

  (* an indicator picks one summand *)
  Lemma lsum_indicator {A} (l : list A) (p : A -> bool) (x0 : A) (g : A -> T) :
    NoDup l -> In x0 l -> (forall x, In x l -> (p x = true <-> x = x0)) ->
    lsum (map (fun x => if p x then g x else zero K) l) = g x0.
  Proof.
    intros Hnd. induction Hnd as [|y l Hy Hnd IH]; intros Hin Hp; [destruct Hin|].
    cbn [map Alg.lsum]. destruct Hin as [->|Hin].
    - assert (E : p x0 = true) by (apply Hp; [now left|reflexivity]). rewrite E.
      rewrite (lsum_map_ext K l _ (fun _ => zero K)).
      + rewrite (lsum_map_zero K SR). ring.
      + intros x Hx. destruct (p x) eqn:Epx; [|reflexivity].
        apply Hp in Epx; [|now right]. subst. contradiction.
    - destruct (p y) eqn:Epy.
      + apply Hp in Epy; [|now left]. subst. contradiction.
      + rewrite IH; [ring|exact Hin|]. intros x Hx. apply Hp. now right.
  Qed.
End Sums.
