(* C18/ProofsFid.v : process fidelity with the identity channel, from the Kraus set.
   metrics.process_fidelity(L) = Re tr(L) / d^2 for a Liouville matrix L.  For L = kraus_to_liouville(Ks)
   (C17 model, row or column order) the trace is  sum_K tr(K) conj(tr(K)) = sum_K |tr K|^2 : the textbook
   F_pro(E, id) = (1/d^2) sum_K |tr K|^2 -- every dimension d, both vectorisation orders. *)
From Coq Require Import List Bool Arith Lia Ring.
From QV Require Import Base.Mat C17.Alg C17.Model C17.Spec C17.ProofsIdx C17.ProofsVec C18.Model.
Import ListNotations.

Section Fid.
  Context {T : Type} (K : ops T) (cj : T -> T).
  Notation T0 := (zero K).
  Infix "+!" := (add K) (at level 50, left associativity).
  Infix "*!" := (mul K) (at level 40, left associativity).
  Variable SR : semi_ring_theory T0 (one K) (add K) (mul K) (@eq T).
  Add Ring TRf : SR.
  Hypothesis cj0 : cj T0 = T0.
  Hypothesis cj_add : forall a b, cj (a +! b) = cj a +! cj b.
  Notation mget := (mget K).
  Notation bsum := (bsum K).
  Notation lsum := (lsum K).

  Theorem liouville_trace_from_kraus col d Ks :
    trace K (d * d) (kraus_to_liouville K cj col d Ks)
    = lsum (map (fun U => trace K d U *! cj (trace K d U)) Ks).
  Proof.
    unfold trace at 1. rewrite (bsum_prod K SR).
    set (F := fun (U : mat T) (a b : nat) => if col then mget U b b *! cj (mget U a a) else mget U a a *! cj (mget U b b)).
    transitivity (bsum d (fun a => bsum d (fun b => lsum (map (fun U => F U a b) Ks)))).
    - apply (bsum_ext K). intros a Ha. apply (bsum_ext K). intros b Hb.
      assert (Hx : a * d + b < d * d) by (now apply pair_lt).
      unfold kraus_to_liouville, choi_to_liouville. rewrite (mget_reshuffle K) by assumption.
      rewrite !div_pair, !mod_pair by assumption. unfold F.
      destruct col; cbn [ord].
      + rewrite (mget_kraus_to_choi K cj cj0 (Col d)) by (cbn [odim]; apply pair_lt; assumption).
        cbn [vun fst snd]. now rewrite !div_pair, !mod_pair by assumption.
      + rewrite (mget_kraus_to_choi K cj cj0 (Row d)) by (cbn [odim]; apply pair_lt; assumption).
        cbn [vun fst snd]. now rewrite !div_pair, !mod_pair by assumption.
    - assert (G : forall U, bsum d (fun a => bsum d (fun b => mget U a a *! cj (mget U b b))) = trace K d U *! cj (trace K d U)).
      { intros U. unfold trace. rewrite (bsum_hom K cj d _ cj0 cj_add). rewrite (bsum_mul_r K SR).
        apply (bsum_ext K). intros a _. now rewrite (bsum_mul_l K SR). }
      rewrite (bsum_ext K d _ (fun a => lsum (map (fun U => bsum d (fun b => F U a b)) Ks)))
        by (intros a _; symmetry; apply (lsum_bsum_swap K SR)).
      rewrite <- (lsum_bsum_swap K SR). apply (lsum_map_ext K). intros U _. rewrite <- (G U). unfold F.
      destruct col; [apply (bsum_swap K SR)|reflexivity].
  Qed.
End Fid.
