(* C18/ProofsAlg.v : algebraic measures and generator post-conditions, over an arbitrary
   commutative semiring with an additive, multiplicative involution cj (complex conjugation). *)
From Coq Require Import List Bool Arith Lia Ring ZArith.
From QV Require Import Base.Mat Base.Zi C17.Alg C17.Model C17.ProofsVec C17.ZiInst C18.Model C18.Spec.
Import ListNotations.

(* ---------- partial transpose: the index map *)
Lemma mixbits_length S x y : length (mixbits S x y) = length x.
Proof. unfold mixbits. now rewrite map_length, seq_length. Qed.

Lemma nth_mixbits S x y q : q < length x ->
  nth q (mixbits S x y) false = if memb q S then nth q y false else nth q x false.
Proof.
  intros H. unfold mixbits.
  rewrite (nth_indep _ false ((fun q => if memb q S then nth q y false else nth q x false) 0))
    by (now rewrite map_length, seq_length).
  rewrite (map_nth (fun q => if memb q S then nth q y false else nth q x false) (seq 0 (length x)) 0 q).
  now rewrite seq_nth.
Qed.

(* exchanging twice gives back the original row (and, symmetrically, column) index *)
Lemma mixbits_invol S x y : length x = length y ->
  mixbits S (mixbits S x y) (mixbits S y x) = x.
Proof.
  intros H. apply (nth_ext _ _ false false); [now rewrite !mixbits_length|].
  intros q Hq. rewrite !mixbits_length in Hq.
  rewrite nth_mixbits by (now rewrite mixbits_length).
  rewrite !nth_mixbits by lia. destruct (memb q S); reflexivity.
Qed.

Lemma mixbits_nil x y : mixbits [] x y = x.
Proof.
  apply (nth_ext _ _ false false); [apply mixbits_length|].
  intros q Hq. rewrite mixbits_length in Hq. now rewrite nth_mixbits.
Qed.

Lemma mixbits_all S x y : length x = length y -> (forall q, q < length x -> memb q S = true) ->
  mixbits S x y = y.
Proof.
  intros Hl H. apply (nth_ext _ _ false false); [now rewrite mixbits_length|].
  intros q Hq. rewrite mixbits_length in Hq. rewrite nth_mixbits by exact Hq. now rewrite H.
Qed.

Section Alg.
  Context {T : Type} (K : ops T) (cj : T -> T).
  Notation T0 := (zero K).
  Infix "+!" := (add K) (at level 50, left associativity).
  Infix "*!" := (mul K) (at level 40, left associativity).
  Variable SR : semi_ring_theory T0 (one K) (add K) (mul K) (@eq T).
  Add Ring TRa : SR.
  Hypothesis cj0 : cj T0 = T0.
  Hypothesis cj_add : forall a b, cj (a +! b) = cj a +! cj b.
  Hypothesis cj_mul : forall a b, cj (a *! b) = cj a *! cj b.
  Hypothesis cj_cj : forall a, cj (cj a) = a.
  Notation vget := (vget K).
  Notation mget := (mget K).
  Notation bsum := (bsum K).

  Lemma mget_proj psi i j : i < length psi -> j < length psi ->
    mget (outer K psi (vconj cj psi)) i j = vget psi i *! cj (vget psi j).
  Proof.
    intros Hi Hj. rewrite (mget_outer K) by (unfold vconj; rewrite ?map_length; assumption).
    now rewrite (vget_vconj K cj cj0).
  Qed.

  (* fidelity shortcut: tr(|psi><psi| sigma) = <psi| sigma |psi> *)
  Theorem fid_trace_pure d psi sigma : length psi = d ->
    fid_trace K d (outer K psi (vconj cj psi)) sigma = expect K cj d psi sigma.
  Proof.
    intros Hd. unfold fid_trace, expect. rewrite (bsum_swap K SR).
    apply (bsum_ext K). intros i Hi. apply (bsum_ext K). intros j Hj.
    rewrite mget_proj by lia. ring.
  Qed.

  (* purity of a projector: tr(|psi><psi|^2) = <psi|psi>^2  (so 1 for a normalised state) *)
  Theorem purity_pure d psi : length psi = d ->
    purity_dm K d (outer K psi (vconj cj psi)) = norm2 K cj psi *! norm2 K cj psi.
  Proof.
    intros Hd. unfold purity_dm, norm2.
    rewrite (lsum_bsum K SR), map_length, Hd.
    assert (E : forall k, k < d -> nth k (map (fun x => x *! cj x) psi) T0 = vget psi k *! cj (vget psi k)).
    { intros k Hk. unfold Alg.vget. rewrite (nth_indep _ T0 ((fun x => x *! cj x) T0)) by (rewrite map_length; lia).
      now rewrite (map_nth (fun x => x *! cj x)). }
    rewrite (bsum_ext K d _ (fun k => vget psi k *! cj (vget psi k)) E).
    rewrite (bsum_mul_r K SR). apply (bsum_ext K). intros i Hi.
    rewrite (bsum_mul_l K SR). apply (bsum_ext K). intros j Hj.
    rewrite !mget_proj by lia. ring.
  Qed.

  (* generator post-conditions:  G = A A^dagger *)
  Theorem gram_hermitian d r A i j : i < d -> j < d ->
    mget (gram K cj d r A) i j = cj (mget (gram K cj d r A) j i).
  Proof.
    intros Hi Hj. unfold gram. rewrite !(mget_mk K) by assumption.
    rewrite (bsum_hom K cj r _ cj0 cj_add). apply (bsum_ext K). intros k _.
    rewrite cj_mul, cj_cj. ring.
  Qed.

  (* x^dagger G x = sum_k w_k conj(w_k),  w_k = sum_i conj(x_i) A_ik : a sum of squared moduli *)
  Theorem gram_psd d r A x :
    quadform K cj d x (gram K cj d r A)
    = bsum r (fun k => let w := bsum d (fun i => cj (vget x i) *! mget A i k) in w *! cj w).
  Proof.
    unfold quadform. cbv zeta.
    transitivity (bsum d (fun i => bsum d (fun j => bsum r (fun k =>
                   (cj (vget x i) *! mget A i k) *! (vget x j *! cj (mget A j k)))))).
    - apply (bsum_ext K). intros i Hi. apply (bsum_ext K). intros j Hj.
      unfold gram. rewrite (mget_mk K) by assumption.
      rewrite (bsum_mul_l K SR), (bsum_mul_r K SR). apply (bsum_ext K). intros k _. ring.
    - transitivity (bsum r (fun k => bsum d (fun i => bsum d (fun j =>
                     (cj (vget x i) *! mget A i k) *! (vget x j *! cj (mget A j k)))))).
      + rewrite (bsum_ext K d _ (fun i => bsum r (fun k => bsum d (fun j =>
                   (cj (vget x i) *! mget A i k) *! (vget x j *! cj (mget A j k))))))
          by (intros i _; apply (bsum_swap K SR)).
        apply (bsum_swap K SR).
      + apply (bsum_ext K). intros k _.
        rewrite (bsum_hom K cj d _ cj0 cj_add). rewrite (bsum_mul_r K SR).
        apply (bsum_ext K). intros i _. rewrite (bsum_mul_l K SR).
        apply (bsum_ext K). intros j _. rewrite cj_mul, cj_cj. ring.
  Qed.

  (* tr(A A^dagger) = sum |A_ik|^2 *)
  Theorem gram_trace d r A :
    trace K d (gram K cj d r A) = bsum d (fun i => bsum r (fun k => mget A i k *! cj (mget A i k))).
  Proof.
    unfold trace. apply (bsum_ext K). intros i Hi. unfold gram. now rewrite (mget_mk K).
  Qed.
End Alg.

(* over the Gaussian integers every summand w conj(w) is a non-negative real number *)
Lemma zi_norm_nonneg w : (0 <= fst (zi_mul w (zi_conj w)))%Z /\ snd (zi_mul w (zi_conj w)) = 0%Z.
Proof. destruct w as [a b]. unfold zi_mul, zi_conj; cbn [fst snd]. split; nia. Qed.

Lemma zi_bsum_nonneg n f :
  (forall k, k < n -> (0 <= fst (f k))%Z /\ snd (f k) = 0%Z) ->
  (0 <= fst (bsum Ziops n f))%Z /\ snd (bsum Ziops n f) = 0%Z.
Proof.
  induction n as [|n IH]; intros H; cbn [bsum]; [cbn; lia|].
  destruct IH as [I1 I2]; [intros; apply H; lia|]. destruct (H n) as [H1 H2]; [lia|].
  cbn [add Ziops]. unfold zi_add. cbn [fst snd]. lia.
Qed.

Theorem gram_psd_Zi d r A x :
  (0 <= fst (quadform Ziops zi_conj d x (gram Ziops zi_conj d r A)))%Z
  /\ snd (quadform Ziops zi_conj d x (gram Ziops zi_conj d r A)) = 0%Z.
Proof.
  rewrite (gram_psd Ziops zi_conj Zi_SR zi_conj_0 zi_conj_add zi_conj_mul zi_conj_invol).
  apply zi_bsum_nonneg. intros k _. cbv zeta. apply zi_norm_nonneg.
Qed.
