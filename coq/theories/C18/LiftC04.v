(* C18/LiftC04.v : the n-qubit lift used by the reset / depolarizing fast paths of backends/numpy.py.
   reset_error_density_matrix and depolarizing_error_density_matrix call quantum_info.partial_trace
   (density-matrix route), tensor the reduced state with |0><0| (resp. the identity) and transpose
   the new axes back to the position of the target qubits.  C04/ChannelSpec.v (read-only here) states
   the documented closed forms at index level (reset_closed, depol_closed) with its own partial trace
   sum_b rho[r[qs:=b]][c[qs:=b]]; C04 ties them to the code by exact runs only.  This file proves, for
   every n and every duplicate-free in-range target list, that those closed forms ARE
        w rho  +  (weights) (x) ptrace_dm n qs rho        (lift_reset / lift_depol below)
   with ptrace_dm the C18 model of quantum_info.partial_trace (itself proved equal to the textbook
   partial trace in ProofsPtrace.v). *)
From Coq Require Import ZArith List Bool Arith Lia Permutation.
From QV Require Import Base.Mat Base.Zi C17.Alg C17.Model C17.ZiInst
  C18.Model C18.Spec C18.ZiInst C18.ProofsBits C18.ProofsPtrace C01.ProofsMat C04.ChannelSpec C04.LiftTP C04.LiftFast.
Import ListNotations.

(* ---------- allbits enumerates the bit strings in the order of their flat index *)
Lemma idx_acc_spec b : forall acc, idx_acc acc b = acc * 2 ^ length b + idx_acc 0 b.
Proof.
  induction b as [|x b IH]; intros acc; cbn [idx_acc length Nat.pow]; [lia|].
  rewrite IH. rewrite (IH (2 * 0 + _)). destruct x; lia.
Qed.
Lemma idx_cons x b : idx (x :: b) = (if x then 2 ^ length b else 0) + idx b.
Proof. unfold idx. cbn [idx_acc]. rewrite idx_acc_spec. destruct x; lia. Qed.
Lemma idx_lt b : idx b < 2 ^ length b.
Proof.
  induction b as [|x b IH]; [cbn; lia|]. rewrite idx_cons. cbn [length Nat.pow]. destruct x; lia.
Qed.
Lemma allbits_len k : length (allbits k) = 2 ^ k.
Proof. induction k as [|k IH]; [reflexivity|]. cbn [allbits Nat.pow]. rewrite app_length, !map_length, IH. lia. Qed.

Lemma nth_allbits k : forall b, length b = k -> nth (idx b) (allbits k) [] = b.
Proof.
  induction k as [|k IH]; intros b Hb.
  - destruct b; [reflexivity|discriminate].
  - destruct b as [|x b]; [discriminate|]. cbn [length] in Hb. assert (Hb' : length b = k) by lia.
    rewrite idx_cons, Hb'. cbn [allbits]. pose proof (idx_lt b) as Hlt. rewrite Hb' in Hlt.
    destruct x.
    + rewrite app_nth2 by (rewrite map_length, allbits_len; lia).
      rewrite map_length, allbits_len. replace (2 ^ k + idx b - 2 ^ k) with (idx b) by lia.
      rewrite (nth_indep _ [] (true :: [])) by (rewrite map_length, allbits_len; exact Hlt).
      rewrite (map_nth (cons true)). now rewrite IH.
    + cbn [Nat.add]. rewrite app_nth1 by (rewrite map_length, allbits_len; exact Hlt).
      rewrite (nth_indep _ [] (false :: [])) by (rewrite map_length, allbits_len; exact Hlt).
      rewrite (map_nth (cons false)). now rewrite IH.
Qed.

(* entry of a matrix tabulated over bit strings *)
Lemma mget_allbits k (F : list bool -> list bool -> Zi) b c : length b = k -> length c = k ->
  mget Ziops (map (fun b => map (fun c => F b c) (allbits k)) (allbits k)) (idx b) (idx c) = F b c.
Proof.
  intros Hb Hc. unfold mget.
  pose proof (idx_lt b) as Lb. pose proof (idx_lt c) as Lc. rewrite Hb in Lb. rewrite Hc in Lc.
  rewrite (nth_indep _ [] ((fun b => map (fun c => F b c) (allbits k)) [])) by (rewrite map_length, allbits_len; exact Lb).
  rewrite (map_nth (fun b => map (fun c => F b c) (allbits k))). rewrite (nth_allbits k b Hb).
  rewrite (nth_indep _ (zero Ziops) (F b [])) by (rewrite map_length, allbits_len; exact Lc).
  rewrite (map_nth (fun c => F b c)). now rewrite (nth_allbits k c Hc).
Qed.

(* ---------- C04's setbits in terms of the C18 qubit bookkeeping *)
Lemma memb_cons i q qs : memb i (q :: qs) = Nat.eqb i q || memb i qs.
Proof. reflexivity. Qed.

Lemma nth_setbits_from qs b : length b = length qs -> forall r i j, j < length r ->
  nth j (setbits_from i qs b r) false
  = if memb (i + j) qs then nth (index_of (i + j) qs) b false else nth j r false.
Proof.
  intros Hl. induction r as [|x r IH]; intros i j Hj; [cbn in Hj; lia|].
  destruct j as [|j].
  - cbn [setbits_from nth]. rewrite Nat.add_0_r. clear IH Hj.
    revert b Hl. induction qs as [|q qs IHq]; intros [|y b] Hl; try discriminate; [reflexivity|].
    rewrite memb_cons. cbn [index_of]. rewrite (Nat.eqb_sym i q).
    destruct (Nat.eqb q i); cbn [orb nth]; [reflexivity|].
    rewrite IHq by (cbn in Hl; lia). destruct (memb i qs); reflexivity.
  - cbn [setbits_from nth]. rewrite IH by (cbn in Hj; lia). now rewrite Nat.add_succ_comm.
Qed.

Lemma setbits_length qs b r : length (setbits qs b r) = length r.
Proof.
  unfold setbits. generalize 0. induction r as [|x r IH]; intros i; [reflexivity|].
  cbn [setbits_from length]. now rewrite IH.
Qed.

Lemma index_of_app_l i l1 l2 : In i l1 -> index_of i (l1 ++ l2) = index_of i l1.
Proof.
  induction l1 as [|x l IH]; intros H; [destruct H|]. cbn [app index_of].
  destruct (Nat.eqb_spec x i); [reflexivity|]. f_equal. apply IH. destruct H; [congruence|assumption].
Qed.
Lemma index_of_app_r i l1 l2 : ~ In i l1 -> index_of i (l1 ++ l2) = length l1 + index_of i l2.
Proof.
  induction l1 as [|x l IH]; intros H; [reflexivity|]. cbn [app index_of length].
  destruct (Nat.eqb_spec x i) as [->|_]; [exfalso; apply H; now left|].
  rewrite IH; [lia|]. intros Hin. apply H. now right.
Qed.

Section Lift.
  Variables (n : nat) (qs : list nat).
  Hypothesis Hnd : NoDup qs.
  Hypothesis Hlt : forall q, In q qs -> q < n.
  Let kept := complement n qs.

  (* r with its qs-bits replaced by a  =  the string whose (qs ++ kept)-selection is a ++ (kept bits of r) *)
  Lemma setbits_unsel a r : length a = length qs -> length r = n ->
    setbits qs a r = unsel n (qs ++ kept) (a ++ sel kept r).
  Proof.
    intros Ha Hr. apply (nth_ext _ _ false false); [now rewrite setbits_length, unsel_length|].
    intros i Hi. rewrite setbits_length, Hr in Hi. unfold setbits.
    rewrite (nth_setbits_from qs a Ha r 0 i) by lia. cbn [Nat.add].
    rewrite nth_unsel by exact Hi.
    destruct (memb i qs) eqn:Em.
    - apply memb_In in Em. rewrite index_of_app_l by exact Em.
      destruct (nth_index_of qs i Em) as [H1 _]. now rewrite app_nth1 by lia.
    - assert (Hn : ~ In i qs) by (intros H; apply memb_In in H; congruence).
      rewrite index_of_app_r by exact Hn. rewrite app_nth2 by lia.
      replace (length qs + index_of i kept - length a) with (index_of i kept) by lia.
      assert (Hk : In i kept).
      { unfold kept, complement. apply filter_In. split; [apply in_seq; lia|now rewrite Em]. }
      destruct (nth_index_of kept i Hk) as [H1 H2]. rewrite nth_sel by exact H1. now rewrite H2.
  Qed.

  Lemma zsum_lsum l : zsum l = lsum Ziops l.
  Proof. induction l as [|x l IH]; [reflexivity|]. cbn [zsum fold_right lsum]. unfold zsum in IH. now rewrite IH. Qed.

  (* C04's partial-trace sum is the entry of the C18 partial_trace model (density-matrix route) *)
  Theorem c04_ptrace_entry_is_model rho r c : length r = n -> length c = n ->
    ChannelSpec.ptrace_entry qs rho r c
    = mget Ziops (z_ptrace_dm n qs rho) (idx (sel kept r)) (idx (sel kept c)).
  Proof.
    intros Hr Hc.
    pose proof (complement_length n qs Hnd Hlt) as Lk. fold kept in Lk.
    assert (Lb : length (sel kept r) = n - length qs) by (now rewrite sel_length).
    assert (Lc : length (sel kept c) = n - length qs) by (now rewrite sel_length).
    unfold z_ptrace_dm. rewrite (ptrace_dm_ok Ziops Zi_SR n qs rho Hnd Hlt).
    unfold ptrace_spec. cbv zeta. fold kept. rewrite Lk.
    rewrite (mget_allbits (n - length qs) (fun b c0 => Spec.ptrace_entry Ziops n qs (fun x y => mget Ziops rho x y) b c0) _ _ Lb Lc).
    rewrite (ptrace_entry_ok Ziops Zi_SR n qs qs Hnd Hlt (Permutation_refl qs) (fun x y => mget Ziops rho x y) _ _ Lb Lc).
    unfold ChannelSpec.ptrace_entry. rewrite zsum_lsum. f_equal. apply map_ext_in. intros a Ha.
    apply allbits_length in Ha. fold kept. now rewrite !setbits_unsel.
  Qed.
End Lift.

(* ---------- the fast paths as "weights (x) partial_trace" *)
Definition zw (w : Z) : Zi := (w, 0%Z).

(* reset_error_density_matrix: (1-p0-p1) rho + p0 (Tr_q rho (x) |0><0|_q) + p1 (Tr_q rho (x) |1><1|_q) *)
Definition lift_reset (n q : nat) (w w0 w1 : Z) (rho : mat Zi) : mat Zi :=
  let PT := z_ptrace_dm n [q] rho in
  let kept := complement n [q] in
  map (fun r => map (fun c =>
      let t := mget Ziops PT (idx (sel kept r)) (idx (sel kept c)) in
      let rq := nth q r false in let cq := nth q c false in
      zi_add (zi_mul (zw w) (mget Ziops rho (idx r) (idx c)))
             (zi_add (if negb rq && negb cq then zi_mul (zw w0) t else zi0)
                     (if rq && cq then zi_mul (zw w1) t else zi0))) (allbits n)) (allbits n).

(* depolarizing_error_density_matrix: (1-lam) rho + lam (Tr_qs rho (x) I_qs / 2^k) *)
Definition lift_depol (n : nat) (qs : list nat) (w wl : Z) (rho : mat Zi) : mat Zi :=
  let PT := z_ptrace_dm n qs rho in
  let kept := complement n qs in
  map (fun r => map (fun c =>
      let t := mget Ziops PT (idx (sel kept r)) (idx (sel kept c)) in
      zi_add (zi_mul (zw w) (mget Ziops rho (idx r) (idx c)))
             (if beqb (sel qs r) (sel qs c) then zi_mul (zw wl) t else zi0)) (allbits n)) (allbits n).

Lemma zi_add_0_r x : zi_add x zi0 = x.
Proof. rewrite zi_add_comm. apply zi_add_0_l. Qed.

Theorem reset_closed_is_lift n q w w0 w1 rho : q < n ->
  reset_closed n q w w0 w1 rho = lift_reset n q w w0 w1 rho.
Proof.
  intros Hq. unfold reset_closed, lift_reset. cbv zeta.
  apply map_ext_in. intros r Hr. apply map_ext_in. intros c Hc.
  apply allbits_length in Hr. apply allbits_length in Hc.
  assert (Hnd : NoDup [q]) by (constructor; [intros []|constructor]).
  assert (Hlt : forall x, In x [q] -> x < n) by (intros x [<-|[]]; exact Hq).
  rewrite (c04_ptrace_entry_is_model n [q] Hnd Hlt rho r c Hr Hc). unfold zw.
  destruct (nth q r false), (nth q c false); cbn [Bool.eqb negb andb];
    rewrite ?zi_add_0_r, ?zi_add_0_l; reflexivity.
Qed.

Theorem depol_closed_is_lift n qs w wl rho : NoDup qs -> (forall q, In q qs -> q < n) ->
  depol_closed n qs w wl rho = lift_depol n qs w wl rho.
Proof.
  intros Hnd Hlt. unfold depol_closed, lift_depol. cbv zeta.
  apply map_ext_in. intros r Hr. apply map_ext_in. intros c Hc.
  apply allbits_length in Hr. apply allbits_length in Hc.
  rewrite (c04_ptrace_entry_is_model n qs Hnd Hlt rho r c Hr Hc). unfold zw.
  destruct (beqb (sel qs r) (sel qs c)); rewrite ?zi_add_0_r; reflexivity.
Qed.
Print Assumptions reset_closed_is_lift.
Print Assumptions depol_closed_is_lift.

(* ---------- hence the FAST PATHS (weights (x) partial_trace) are Kraus maps, scale the trace by the total weight
   and map Gram forms to Gram forms (complete positivity), for every n  (C04/LiftTP.v, C04/LiftFast.v) *)
Theorem lift_reset_is_kraus_map n q w w0 w1 rho : q < n -> wf_mat n rho ->
  lift_reset n q w w0 w1 rho = apply_kraus n w (zuterms (reset_wt w0 w1) [q]) rho.
Proof. intros Hq Hr. rewrite <- (reset_closed_is_lift n q w w0 w1 rho Hq). now apply reset_closed_is_kraus_map. Qed.
Theorem lift_depol_is_kraus_map n qs w wl rho : NoDup qs -> (forall q, In q qs -> q < n) -> wf_mat n rho ->
  lift_depol n qs w wl rho = apply_kraus n w (zuterms (fun _ _ => wl) qs) rho.
Proof. intros Hn Hq Hr. rewrite <- (depol_closed_is_lift n qs w wl rho Hn Hq). now apply depol_closed_is_kraus_map. Qed.

Theorem lift_reset_trace n q w w0 w1 rho : q < n -> wf_mat n rho ->
  ztr n (lift_reset n q w w0 w1 rho) = zi_mul (LiftTP.zw (w + (w0 + w1))) (ztr n rho).
Proof. intros Hq Hr. rewrite <- (reset_closed_is_lift n q w w0 w1 rho Hq). now apply reset_closed_trace. Qed.
Theorem lift_depol_trace n qs w wl rho : NoDup qs -> (forall q, In q qs -> q < n) -> wf_mat n rho ->
  ztr n (lift_depol n qs w wl rho)
  = zi_mul (zi_add (LiftTP.zw w) (Model.tsum Ziops (map (fun _ => LiftTP.zw wl) (allbits (length qs))))) (ztr n rho).
Proof. intros Hn Hq Hr. rewrite <- (depol_closed_is_lift n qs w wl rho Hn Hq). now apply depol_closed_trace. Qed.

Theorem lift_reset_preserves_gram_form n q w w0 w1 l : q < n ->
  lift_reset n q w w0 w1 (gram Ziops zi_conj n l)
  = gram Ziops zi_conj n (gram_out Ziops n (LiftTP.zw w) (map zlift (zuterms (reset_wt w0 w1) [q])) l).
Proof. intros Hq. rewrite <- (reset_closed_is_lift n q w w0 w1 _ Hq). now apply reset_closed_preserves_gram_form. Qed.
Theorem lift_depol_preserves_gram_form n qs w wl l : NoDup qs -> (forall q, In q qs -> q < n) ->
  lift_depol n qs w wl (gram Ziops zi_conj n l)
  = gram Ziops zi_conj n (gram_out Ziops n (LiftTP.zw w) (map zlift (zuterms (fun _ _ => wl) qs)) l).
Proof. intros Hn Hq. rewrite <- (depol_closed_is_lift n qs w wl _ Hn Hq). now apply depol_closed_preserves_gram_form. Qed.
Print Assumptions lift_reset_is_kraus_map.
Print Assumptions lift_depol_trace.
Print Assumptions lift_depol_preserves_gram_form.

(* non-vacuity / instance: one qubit of two reset with weights (w,w0,w1) = (1,1,2) *)
Example lift_reset_instance :
  lift_reset 2 1 1 1 2 [[(1,0);(2,0);(3,0);(4,0)];[(5,0);(6,0);(7,0);(8,0)];[(9,0);(1,1);(2,2);(3,3)];[(4,4);(5,5);(6,6);(7,7)]]%Z
  = reset_closed 2 1 1 1 2 [[(1,0);(2,0);(3,0);(4,0)];[(5,0);(6,0);(7,0);(8,0)];[(9,0);(1,1);(2,2);(3,3)];[(4,4);(5,5);(6,6);(7,7)]]%Z.
Proof. vm_compute. reflexivity. Qed.
