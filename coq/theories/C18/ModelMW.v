(* C18/ModelMW.v : Meyer-Wallach entanglement on (possibly mixed, possibly unnormalised) density matrices.
   meyer_wallach_entanglement(rho) = 2 (1 - (1/N) sum_k tr(rho_k^2)),  rho_k = the reduced state OF qubit k,
   i.e. all OTHER qubits are traced out (trace_q = range(n) without k).  Executable definitions only. *)
From Coq Require Import ZArith List Bool Arith.
From QV Require Import Base.Mat Base.Zi C17.Alg C17.Model C17.ZiInst C18.Model C18.Spec C18.ZiInst.
Import ListNotations.

Definition others (n k : nat) : list nat := filter (fun q => negb (Nat.eqb q k)) (seq 0 n).
(* sum over the qubits of tr(rho_k^2), with rho_k the 2x2 marginal of qubit k (model of the loop of the real code) *)
Definition mw_sum (n : nat) (rho : mat Zi) : Zi :=
  fold_left (fun acc k => zi_add acc (z_purity_dm 2 (z_ptrace_dm n (others n k) rho))) (seq 0 n) zi0.
(* the same with the textbook sum for the partial trace *)
Definition mw_sum_spec (n : nat) (rho : mat Zi) : Zi :=
  fold_left (fun acc k => zi_add acc (z_purity_dm 2 (z_ptrace_spec_dm n (others n k) rho))) (seq 0 n) zi0.
(* NOT the model: the purities of the (n-1)-qubit complements (tracing out qubit k itself); equal to mw_sum on pure
   states only -- refuted for mixed states in PropsMW.v *)
Definition mw_sum_complement (n : nat) (rho : mat Zi) : Zi :=
  fold_left (fun acc k => zi_add acc (z_purity_dm (2 ^ (n - 1)) (z_ptrace_dm n [k] rho))) (seq 0 n) zi0.
