(* C18/PropsMW.v : the Meyer-Wallach sum uses the marginal OF each qubit; summing the purities of the complements
   instead is a different function on mixed states (1, 2-with-asymmetric-weights and 3 qubits), although it agrees on
   the pure states the unit tests use.  Model = textbook sum on the witnesses (bounded, vm_compute). *)
From Coq Require Import ZArith List Bool Arith.
From QV Require Import Base.Mat Base.Zi C17.Alg C17.Model C17.ZiInst C18.Model C18.Spec C18.ZiInst C18.ModelMW.
Import ListNotations.
Open Scope Z_scope.

Definition I2z : mat Zi := [[(1, 0); (0, 0)]; [(0, 0); (1, 0)]].
Definition I8z : mat Zi :=
  map (fun i => map (fun j => if Nat.eqb i j then (1, 0) else (0, 0)) (seq 0 8)) (seq 0 8).
(* |GHZ_3><GHZ_3| times 2 (pure, unnormalised) *)
Definition ghz3 : mat Zi :=
  map (fun i => map (fun j => if (Nat.eqb i 0 || Nat.eqb i 7) && (Nat.eqb j 0 || Nat.eqb j 7) then (1, 0) else (0, 0)) (seq 0 8)) (seq 0 8).

(* mixed witnesses: the unnormalised maximally mixed states of 1 and 3 qubits *)
Theorem meyer_wallach_wrong_side_refuted :
  mw_sum_complement 1 I2z <> mw_sum 1 I2z /\ mw_sum_complement 3 I8z <> mw_sum 3 I8z.
Proof. split; vm_compute; discriminate. Qed.
Print Assumptions meyer_wallach_wrong_side_refuted.

(* on the pure witness both sums agree: the defect class is invisible to pure-state tests (bounded instance) *)
Theorem meyer_wallach_pure_instance_agrees : mw_sum_complement 3 ghz3 = mw_sum 3 ghz3.
Proof. vm_compute. reflexivity. Qed.
Print Assumptions meyer_wallach_pure_instance_agrees.

(* the model's marginals are the textbook partial traces on the witnesses (bounded; the general statement is
   ptrace_ok of C18/Props.v, for every n and every duplicate-free traced list) *)
Theorem meyer_wallach_model_is_spec_instances :
  mw_sum 1 I2z = mw_sum_spec 1 I2z /\ mw_sum 3 I8z = mw_sum_spec 3 I8z /\ mw_sum 3 ghz3 = mw_sum_spec 3 ghz3.
Proof. repeat split; vm_compute; reflexivity. Qed.
Print Assumptions meyer_wallach_model_is_spec_instances.
