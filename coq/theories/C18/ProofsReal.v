(* C18/ProofsReal.v : the classical measures of utils.py / entropies.py over the real numbers.
   Uses the standard library Reals and Coquelicot (their axioms appear in Print Assumptions). *)
From Coq Require Import Reals List Lra Lia.
From Coquelicot Require Import Coquelicot.
Import ListNotations.
Local Open Scope R_scope.

Definition rsum (l : list R) : R := fold_right Rplus 0 l.

(* ---------- random_stochastic_matrix: dividing a row by its sum makes it sum to one *)
Lemma rsum_div l s : rsum (map (fun x => x / s) l) = rsum l / s.
Proof. induction l as [|x l IH]; cbn [rsum fold_right map]; [lra|]. unfold rsum in IH. rewrite IH. lra. Qed.

Theorem row_normalised l : rsum l <> 0 -> rsum (map (fun x => x / rsum l) l) = 1.
Proof. intros H. rewrite rsum_div. now field. Qed.

Theorem row_normalised_nonneg l : (forall x, In x l -> 0 <= x) -> 0 < rsum l ->
  forall y, In y (map (fun x => x / rsum l) l) -> 0 <= y.
Proof.
  intros Hn Hs y Hy. apply in_map_iff in Hy. destruct Hy as [x [<- Hx]].
  apply Rmult_le_pos; [now apply Hn|]. left. now apply Rinv_0_lt_compat.
Qed.

(* rho = A A^dagger / tr(A A^dagger) has unit trace: same statement on the diagonal *)
Theorem unit_trace_after_normalisation diag : rsum diag <> 0 -> rsum (map (fun x => x / rsum diag) diag) = 1.
Proof. apply row_normalised. Qed.

(* ---------- Hellinger: the code's  (1 - d^2)^2  with d = ||sqrt p - sqrt q||_2 / sqrt 2
   equals the squared Bhattacharyya coefficient (sum sqrt(p q))^2 *)
Definition hellinger_distance (pq : list (R * R)) : R :=
  sqrt (rsum (map (fun x => (sqrt (fst x) - sqrt (snd x)) ^ 2) pq)) / sqrt 2.
Definition hellinger_fidelity (pq : list (R * R)) : R := (1 - hellinger_distance pq ^ 2) ^ 2.
Definition bhattacharyya (pq : list (R * R)) : R := rsum (map (fun x => sqrt (fst x * snd x)) pq).

Lemma hell_expand pq : (forall x, In x pq -> 0 <= fst x /\ 0 <= snd x) ->
  rsum (map (fun x => (sqrt (fst x) - sqrt (snd x)) ^ 2) pq)
  = rsum (map fst pq) + rsum (map snd pq) - 2 * bhattacharyya pq.
Proof.
  unfold bhattacharyya. induction pq as [|[p q] l IH]; intros H; cbn [rsum fold_right map fst snd]; [lra|].
  unfold rsum in IH. rewrite IH by (intros; apply H; now right).
  destruct (H (p, q)) as [Hp Hq]; [now left|]. cbn [fst snd] in Hp, Hq.
  rewrite sqrt_mult by assumption.
  replace ((sqrt p - sqrt q) ^ 2) with (sqrt p * sqrt p + sqrt q * sqrt q - 2 * (sqrt p * sqrt q)) by ring.
  rewrite !sqrt_sqrt by assumption. lra.
Qed.

Lemma rsum_sq_nonneg pq : 0 <= rsum (map (fun x : R * R => (sqrt (fst x) - sqrt (snd x)) ^ 2) pq).
Proof.
  induction pq as [|x l IH]; cbn [rsum fold_right map]; [lra|].
  apply Rplus_le_le_0_compat; [apply pow2_ge_0|exact IH].
Qed.

Theorem hellinger_fidelity_is_bhattacharyya pq :
  (forall x, In x pq -> 0 <= fst x /\ 0 <= snd x) ->
  rsum (map fst pq) = 1 -> rsum (map snd pq) = 1 ->
  hellinger_fidelity pq = bhattacharyya pq ^ 2.
Proof.
  intros Hn Hp Hq. unfold hellinger_fidelity, hellinger_distance. f_equal.
  assert (H2 : sqrt 2 <> 0) by (apply Rgt_not_eq, sqrt_lt_R0; lra).
  replace ((sqrt (rsum (map (fun x => (sqrt (fst x) - sqrt (snd x)) ^ 2) pq)) / sqrt 2) ^ 2)
    with ((sqrt (rsum (map (fun x => (sqrt (fst x) - sqrt (snd x)) ^ 2) pq))
           * sqrt (rsum (map (fun x => (sqrt (fst x) - sqrt (snd x)) ^ 2) pq))) / (sqrt 2 * sqrt 2))
    by (field; exact H2).
  rewrite sqrt_sqrt by apply rsum_sq_nonneg. rewrite sqrt_sqrt by lra.
  rewrite hell_expand by exact Hn. rewrite Hp, Hq. lra.
Qed.

(* total variation distance: half the 1-norm, symmetric, zero on equal arguments *)
Definition tvd (pq : list (R * R)) : R := rsum (map (fun x => Rabs (fst x - snd x)) pq) / 2.
Theorem tvd_sym pq : tvd pq = tvd (map (fun x => (snd x, fst x)) pq).
Proof.
  unfold tvd. f_equal. rewrite map_map. induction pq as [|x l IH]; cbn [rsum fold_right map fst snd]; [reflexivity|].
  unfold rsum in IH. rewrite IH. now rewrite Rabs_minus_sym.
Qed.
Theorem tvd_same l : tvd (map (fun x => (x, x)) l) = 0.
Proof.
  unfold tvd. rewrite map_map. cbn [fst snd].
  assert (E : rsum (map (fun x : R => Rabs (x - x)) l) = 0).
  { induction l as [|x l IH]; cbn [rsum fold_right map]; [reflexivity|]. unfold rsum in IH. rewrite IH.
    replace (x - x) with 0 by ring. rewrite Rabs_R0. lra. }
  rewrite E. lra.
Qed.

(* ---------- Renyi entropy, alpha = 0: the code returns log(count_nonzero p) (repair 0e11ab5d3), which
   is the documented Hartley entropy log |supp p| and the limit of the general formula. *)
Fixpoint count_nonzero (p : list R) : nat :=
  match p with [] => O | x :: l => if Req_EM_T x 0 then count_nonzero l else S (count_nonzero l) end.
Definition renyi0_branch (p : list R) : R := ln (INR (count_nonzero p)) / ln 2.
Definition support_size (p : list R) : nat := length (filter (fun x => if Req_EM_T x 0 then false else true) p).
Definition hartley (p : list R) : R := ln (INR (support_size p)) / ln 2.

Lemma ln2_pos : 0 < ln 2.
Proof. rewrite <- ln_1. apply ln_increasing; lra. Qed.

Theorem renyi_alpha0_branch_ok p : renyi0_branch p = hartley p.
Proof.
  unfold renyi0_branch, hartley, support_size. do 3 f_equal.
  induction p as [|x l IH]; cbn [count_nonzero filter length]; [reflexivity|].
  destruct (Req_EM_T x 0); cbn [length]; now rewrite IH.
Qed.

(* HISTORICAL (pre-repair formula, not the current tree): the branch used to return log(len p), which
   differs from the Hartley value as soon as a probability is 0 *)
Definition renyi0_branch_prefix (p : list R) : R := ln (INR (length p)) / ln 2.
Lemma historical_renyi_alpha0_prefix_differs :
  exists p, rsum p = 1 /\ (forall x, In x p -> 0 <= x <= 1) /\ renyi0_branch_prefix p <> hartley p.
Proof.
  exists [/2; /2; 0; 0]. split; [cbn; lra|]. split.
  - intros x H. cbn in H. destruct H as [<-|[<-|[<-|[<-|[]]]]]; lra.
  - unfold renyi0_branch_prefix, hartley, support_size. cbn [length filter].
    destruct (Req_EM_T (/2) 0) as [E|_]; [lra|]. destruct (Req_EM_T 0 0) as [_|N]; [|lra]. cbn [length].
    replace (INR 4) with (2 * 2) by (cbn; lra). replace (INR 2) with 2 by (cbn; lra).
    rewrite ln_mult by lra. pose proof ln2_pos as H. intros E.
    assert (E' : (ln 2 + ln 2) / ln 2 = 2) by (field; lra).
    assert (E'' : ln 2 / ln 2 = 1) by (field; lra). lra.
Qed.

(* ---------- Tsallis entropy S_a = (1 - sum p^a)/(a - 1).  Its limit a -> 1 is minus the derivative
   of g(a) = sum p^a at a = 1 (g(1) = 1), and that derivative is sum p ln p: the limit is the
   Shannon entropy in NATS.  The code's a = 1 branch returns the Shannon entropy in base `base`
   (default 2), which differs unless base = e. *)
Definition powsum (p : list R) (a : R) : R := rsum (map (fun x => Rpower x a) p).
Definition plnp (p : list R) : R := rsum (map (fun x => x * ln x) p).

Lemma Rpower_is_derive x a : 0 < x -> is_derive (fun a => Rpower x a) a (ln x * Rpower x a).
Proof. intros H. unfold Rpower. auto_derive; [exact I|ring]. Qed.

Theorem tsallis_limit_derivative p : (forall x, In x p -> 0 < x) ->
  is_derive (powsum p) 1 (plnp p).
Proof.
  unfold powsum, plnp. induction p as [|x l IH]; intros H; cbn [rsum fold_right map].
  - exact (@is_derive_const R_AbsRing R_NormedModule 0 1).
  - apply (is_derive_plus (fun a => Rpower x a) (fun a => rsum (map (fun y => Rpower y a) l))).
    + replace (x * ln x) with (ln x * Rpower x 1) by (rewrite Rpower_1 by (apply H; now left); ring).
      apply Rpower_is_derive. apply H. now left.
    + apply IH. intros y Hy. apply H. now right.
Qed.

Lemma ln2_lt_1 : ln 2 < 1.
Proof.
  assert (H : 2 < exp 1) by (pose proof (exp_ineq1 1 ltac:(lra)); lra).
  rewrite <- (ln_exp 1). apply ln_increasing; lra.
Qed.

(* the a = 1 branch with base 2 on the uniform bit: 1 (bit), the limit of the general formula: ln 2 *)
Theorem tsallis_alpha1_branch_refuted :
  exists p, rsum p = 1 /\ (forall x, In x p -> 0 < x) /\
    - (plnp p) / ln 2 <> - plnp p.
Proof.
  exists [/2; /2]. split; [cbn; lra|]. split.
  - intros x H. cbn in H. destruct H as [<-|[<-|[]]]; lra.
  - unfold plnp. cbn [rsum fold_right map]. rewrite ln_Rinv by lra.
    pose proof ln2_pos. pose proof ln2_lt_1. intros E.
    assert (E1 : - (/ 2 * - ln 2 + (/ 2 * - ln 2 + 0)) / ln 2 = 1) by (field; lra). lra.
Qed.
