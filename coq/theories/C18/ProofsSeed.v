(* C18/ProofsSeed.v : the seed-handling state machine (_check_backend_and_local_state).
   An int seed always reads stream (seed, 0); a passed Generator is read where it stands and is
   left advanced by what was drawn -- never re-seeded -- for every history of calls. *)
From Coq Require Import List Bool Arith Lia.
From QV Require Import C18.Model.
Import ListNotations.

Lemma nth_set_nth_same {A} (l : list A) k x d : k < length l -> nth k (set_nth k x l) d = x.
Proof.
  revert k. induction l as [|y l IH]; intros k H; [cbn in H; lia|].
  destruct k; cbn [set_nth nth]; [reflexivity|]. apply IH. cbn in H. lia.
Qed.
Lemma nth_set_nth_other {A} (l : list A) k j x d : j <> k -> nth j (set_nth k x l) d = nth j l d.
Proof.
  revert k j. induction l as [|y l IH]; intros k j H; [destruct k; reflexivity|].
  destruct k, j; cbn [set_nth nth]; try reflexivity; try lia. apply IH. lia.
Qed.
Lemma set_nth_length {A} (l : list A) k x : length (set_nth k x l) = length l.
Proof. revert k. induction l as [|y l IH]; intros k; [destruct k; reflexivity|]. destruct k; cbn [set_nth length]; [reflexivity|]. now rewrite IH. Qed.

(* an int seed: the output is a function of the seed alone, and no generator of the caller moves *)
Theorem int_seed_deterministic w w' s k k' :
  fst (call w (SInt s) k) = fst (call w' (SInt s) k') /\ fst (call w (SInt s) k) = (user_stream s, 0)
  /\ snd (call w (SInt s) k) = w.
Proof. cbn [call fst snd]. repeat split. Qed.

(* a passed Generator: read at its current position, left advanced by k, others untouched *)
Theorem generator_advanced w h k : h < length (gens w) ->
  let g := nth h (gens w) (mkgen 0 0) in
  let w' := snd (call w (SGen h) k) in
  fst (call w (SGen h) k) = (stream g, pos g)
  /\ nth h (gens w') (mkgen 0 0) = mkgen (stream g) (pos g + k)
  /\ (forall j, j <> h -> nth j (gens w') (mkgen 0 0) = nth j (gens w) (mkgen 0 0))
  /\ entropy w' = entropy w.
Proof.
  intros H. cbn [call fst snd gens entropy]. repeat split.
  - now apply nth_set_nth_same.
  - intros j Hj. now apply nth_set_nth_other.
Qed.

(* never re-seeded: the next call on the same Generator continues exactly where the first stopped *)
Theorem generator_never_reseeded w h k1 k2 : h < length (gens w) ->
  let g := nth h (gens w) (mkgen 0 0) in
  fst (call (snd (call w (SGen h) k1)) (SGen h) k2) = (stream g, pos g + k1).
Proof.
  intros H. cbn [call fst snd gens]. rewrite nth_set_nth_same by exact H. reflexivity.
Qed.

(* seed=None: a fresh stream, different from every int-seed stream and from every earlier None *)
Theorem none_seed_fresh w k s : fst (fst (call w SNone k)) <> user_stream s.
Proof. cbn [call fst]. unfold os_stream, user_stream. lia. Qed.
Theorem none_seed_distinct w k k' :
  fst (fst (call (snd (call w SNone k)) SNone k')) <> fst (fst (call w SNone k)).
Proof. cbn [call fst snd entropy]. unfold os_stream. lia. Qed.

(* over every history: generators keep their stream and only ever move forward *)
Fixpoint final_world (w : world) (cs : list (seedarg * nat)) : world :=
  match cs with [] => w | (a, k) :: cs' => final_world (snd (call w a k)) cs' end.

Lemma call_invariant w a k h :
  let w' := snd (call w a k) in
  length (gens w') = length (gens w)
  /\ stream (nth h (gens w') (mkgen 0 0)) = stream (nth h (gens w) (mkgen 0 0))
  /\ pos (nth h (gens w) (mkgen 0 0)) <= pos (nth h (gens w') (mkgen 0 0)).
Proof.
  destruct a as [|s|g]; cbn [call snd gens]; try (repeat split; lia).
  split; [apply set_nth_length|].
  destruct (Nat.eq_dec h g) as [->|Hne].
  - destruct (Nat.lt_ge_cases g (length (gens w))) as [Hlt|Hge].
    + rewrite nth_set_nth_same by exact Hlt. cbn [stream pos]. split; [reflexivity|lia].
    + assert (E : set_nth g (mkgen (stream (nth g (gens w) (mkgen 0 0))) (pos (nth g (gens w) (mkgen 0 0)) + k)) (gens w) = gens w).
      { generalize (mkgen (stream (nth g (gens w) (mkgen 0 0))) (pos (nth g (gens w) (mkgen 0 0)) + k)).
        revert g Hge. induction (gens w) as [|y l IH]; intros g Hge x; [destruct g; reflexivity|].
        destruct g; cbn in Hge; [lia|]. cbn [set_nth]. f_equal. apply IH. lia. }
      rewrite E. split; [reflexivity|lia].
  - rewrite nth_set_nth_other by exact Hne. split; [reflexivity|lia].
Qed.

Theorem history_invariant cs : forall w h,
  stream (nth h (gens (final_world w cs)) (mkgen 0 0)) = stream (nth h (gens w) (mkgen 0 0))
  /\ pos (nth h (gens w) (mkgen 0 0)) <= pos (nth h (gens (final_world w cs)) (mkgen 0 0)).
Proof.
  induction cs as [|[a k] cs IH]; intros w h; cbn [final_world]; [split; [reflexivity|lia]|].
  destruct (IH (snd (call w a k)) h) as [I1 I2]. destruct (call_invariant w a k h) as [_ [C1 C2]].
  split; [now rewrite I1|lia].
Qed.

(* non-vacuity: a history mixing the three kinds of seed argument *)
Example history_example :
  run_calls (mkworld [mkgen (user_stream 7) 0] 0) [SGen 0; SInt 3; SGen 0; SNone; SInt 3; SGen 0]
  = [(14, 0); (6, 0); (14, 1); (1, 0); (6, 0); (14, 2)].
Proof. reflexivity. Qed.
