(* C18/ZiInst.v : Gaussian-integer instances used by the correspondence run. *)
From Coq Require Import ZArith List Bool Arith.
From QV Require Import Base.Mat Base.Zi C17.Alg C17.Model C17.ZiInst C18.Model C18.Spec.
Import ListNotations.

Definition z_ptrace_dm := ptrace_dm Ziops.
Definition z_ptrace_sv := ptrace_sv Ziops zi_conj.
Definition z_ptrace_spec_dm (n : nat) (S : list nat) (rho : mat Zi) :=
  ptrace_spec Ziops n S (fun x y => mget Ziops rho x y).
Definition z_ptrace_spec_sv (n : nat) (S : list nat) (psi : vec Zi) :=
  ptrace_spec Ziops n S (fun x y => zi_mul (vget Ziops psi x) (zi_conj (vget Ziops psi y))).
Definition z_ptranspose := ptranspose Ziops.
Definition z_matricize := matricize Ziops.
Definition z_outer := outer Ziops.
Definition z_vconj := vconj zi_conj.
Definition z_purity_dm := purity_dm Ziops.
Definition z_norm2 := norm2 Ziops zi_conj.
Definition z_fid_trace := fid_trace Ziops.
Definition z_expect := expect Ziops zi_conj.
Definition z_hs_inner := hs_inner Ziops zi_conj.
Definition z_msub (A B : mat Zi) : mat Zi :=
  map (fun ab => map (fun xy => zi_sub (fst xy) (snd xy)) (combine (fst ab) (snd ab))) (combine A B).
Definition z_gram := gram Ziops zi_conj.
Definition z_quadform := quadform Ziops zi_conj.
Definition z_trace := trace Ziops.
