(* C15/PropsModels.v : built-in model forms inside operator products (round-5 stream `model_algebra` of harness/c15.py
   and `models` of harness/c15_hist.py).

   The forms emitted by hamiltonians/models.py (TFIM, Heisenberg/XXX/XXZ, X/Y/Z, MaxCut) are ordinary forms; a product
   h1 @ h2 (@ h3) of SymbolicHamiltonians is the form product.  For ANY monomial list that denotes the product form
   (the sympy oracle contract, checked per case by the harness), the term-by-term route equals plain matrix arithmetic on
   the DENSE builders' matrices.  The contract is exactly what a commutative symbol breaks: sympy moves commutative
   factors to the front of a monomial, and `reordered_oracle_violates_contract` shows that the reordered monomial list
   no longer denotes the product (so the harness states "every symbol emitted by a model is non-commutative" as a
   per-run contract and checks it). *)
From Coq Require Import ZArith List Bool Arith.
From QV Require Import Base.Mat Base.Zi C15.MatDefs C15.Model C15.MatAlg C15.Proofs C15.Proofs2 C15.Props.
Import ListNotations.

Lemma denote_matmul : forall n f g, denote n (s_matmul f g) = d_matmul (denote n f) (denote n g).
Proof. intros n f g. destruct (algebra_ok n f g zi0) as (_ & _ & _ & _ & _ & _ & H). exact H. Qed.

(* h1 @ h2 @ h3 *)
Theorem matmul3_ok : forall n f g k,
  denote n (s_matmul (s_matmul f g) k) = d_matmul (d_matmul (denote n f) (denote n g)) (denote n k).
Proof. intros. rewrite denote_matmul, denote_matmul. reflexivity. Qed.
Print Assumptions matmul3_ok.

(* the term-by-term route on a product = matrix arithmetic on the factors' operators *)
Theorem product_routes_ok : forall n f g ms c S,
  Forall (smono_ok n) ms -> smonos_op n ms = denote n (s_matmul f g) ->
  (fst (terms_of ms) <> [] \/ snd (terms_of ms) <> zi0) -> wfm (2 ^ n) c S ->
  apply_gates n (terms_of ms) S = mmul ZK (d_matmul (denote n f) (denote n g)) S.
Proof.
  intros n f g ms c S Hok Hden Hne Hwf.
  rewrite (apply_ok n c (s_matmul f g) ms S Hok Hden Hne Hwf).
  unfold apply_spec. rewrite denote_matmul. reflexivity.
Qed.
Print Assumptions product_routes_ok.

(* instances for the built-in models: a hand-written form on either side of TFIM / Heisenberg, with the DENSE builder's
   matrix on the arithmetic side *)
Theorem tfim_product_left_ok : forall n h g ms c S, 1 < n ->
  Forall (smono_ok n) ms -> smonos_op n ms = denote n (s_matmul g (tfim_form n h)) ->
  (fst (terms_of ms) <> [] \/ snd (terms_of ms) <> zi0) -> wfm (2 ^ n) c S ->
  apply_gates n (terms_of ms) S = mmul ZK (d_matmul (denote n g) (tfim_dense n h)) S.
Proof.
  intros n h g ms c S Hn Hok Hden Hne Hwf.
  rewrite (product_routes_ok n g (tfim_form n h) ms c S Hok Hden Hne Hwf), <- (models_ok_tfim n h Hn). reflexivity.
Qed.
Print Assumptions tfim_product_left_ok.

Theorem tfim_product_right_ok : forall n h g ms c S, 1 < n ->
  Forall (smono_ok n) ms -> smonos_op n ms = denote n (s_matmul (tfim_form n h) g) ->
  (fst (terms_of ms) <> [] \/ snd (terms_of ms) <> zi0) -> wfm (2 ^ n) c S ->
  apply_gates n (terms_of ms) S = mmul ZK (d_matmul (tfim_dense n h) (denote n g)) S.
Proof.
  intros n h g ms c S Hn Hok Hden Hne Hwf.
  rewrite (product_routes_ok n (tfim_form n h) g ms c S Hok Hden Hne Hwf), <- (models_ok_tfim n h Hn). reflexivity.
Qed.
Print Assumptions tfim_product_right_ok.

Theorem heisenberg_product_left_ok : forall n J hf g ms c S, 1 < n ->
  Forall (smono_ok n) ms -> smonos_op n ms = denote n (s_matmul g (heis_form n J hf)) ->
  (fst (terms_of ms) <> [] \/ snd (terms_of ms) <> zi0) -> wfm (2 ^ n) c S ->
  apply_gates n (terms_of ms) S = mmul ZK (d_matmul (denote n g) (heis_dense n J hf)) S.
Proof.
  intros n J hf g ms c S Hn Hok Hden Hne Hwf.
  rewrite (product_routes_ok n g (heis_form n J hf) ms c S Hok Hden Hne Hwf), <- (models_ok_heisenberg n J hf Hn). reflexivity.
Qed.
Print Assumptions heisenberg_product_left_ok.

(* non-vacuity: X0 @ TFIM(2, h=0) = -2 X0 Z0 Z1, monomials in the written order *)
Example tfim_product_nonvacuous :
  let ms := [((-2, 0)%Z, [SF PX 0 1; SF PZ 0 1; SF PZ 1 1])] in
  Forall (smono_ok 2) ms /\ smonos_op 2 ms = denote 2 (s_matmul (FSym PX 0) (tfim_form 2 0)) /\ fst (terms_of ms) <> [].
Proof. split; [repeat constructor|]. split; [vm_compute; reflexivity|discriminate]. Qed.

(* what a commutative Z symbol does: sympy.expand moves it in front of the non-commutative X0; the reordered monomial list
   does NOT denote the product any more (it denotes its negative), i.e. the oracle contract of terms_ok / apply_ok fails *)
Theorem reordered_oracle_violates_contract :
  exists n f g ms, Forall (smono_ok n) ms /\
    ms = [((-2, 0)%Z, [SF PZ 0 1; SF PZ 1 1; SF PX 0 1])] /\ f = FSym PX 0 /\ g = tfim_form 2 0 /\
    smonos_op n ms <> denote n (s_matmul f g) /\
    smonos_op n ms = denote n (s_matmul g f).
Proof.
  exists 2%nat, (FSym PX 0), (tfim_form 2 0), [((-2, 0)%Z, [SF PZ 0 1; SF PZ 1 1; SF PX 0 1])].
  split; [repeat constructor|]. repeat (split; [reflexivity|]).
  split; [vm_compute; discriminate|vm_compute; reflexivity].
Qed.
Print Assumptions reordered_oracle_violates_contract.

(* and in general moving a factor to the front is not sound: operator products do not commute *)
Theorem factors_do_not_commute : exists n f g, denote n (FMul f g) <> denote n (FMul g f).
Proof. exists 1%nat, (FSym PX 0), (FSym PZ 0). vm_compute; discriminate. Qed.
Print Assumptions factors_do_not_commute.
