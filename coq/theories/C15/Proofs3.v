(* C15/Proofs3.v : application, expectation, the model's own expansion *)
From Coq Require Import ZArith List Bool Arith Lia.
From QV Require Import Base.Mat Base.Zi C15.MatDefs C15.Model C15.MatAlg C15.Proofs C15.Proofs2.
Import ListNotations.

(* HISTORICAL: the pre-repair application was right only for forms with at most one factor per qubit and term *)
Theorem apply_partial n c f ms S :
  Forall (smono_ok n) ms -> smonos_op n ms = denote n f ->
  one_factor_per_qubit (fst (terms_of ms)) = true ->
  (fst (terms_of ms) <> [] \/ snd (terms_of ms) <> zi0) ->
  wfm (2 ^ n) c S ->
  apply_gates_prefix n (terms_of ms) S = apply_spec n f S.
Proof.
  intros Hm E Hd Hne HS. unfold apply_spec.
  rewrite (apply_gates_ok n c); try assumption; [|now apply terms_of_qs].
  now rewrite (terms_prod_ok n f ms).
Qed.

(* h @ S for every form (SymbolicTerm.__call__ applies the factors last-to-first) *)
Theorem apply_full n c f ms S :
  Forall (smono_ok n) ms -> smonos_op n ms = denote n f ->
  (fst (terms_of ms) <> [] \/ snd (terms_of ms) <> zi0) ->
  wfm (2 ^ n) c S ->
  apply_gates n (terms_of ms) S = apply_spec n f S.
Proof.
  intros Hm E Hne HS. unfold apply_spec.
  rewrite (apply_gates_fixed_ok n c) by assumption. now rewrite (terms_prod_ok n f ms).
Qed.

Theorem expectation_partial n f ms psi rho :
  Forall (smono_ok n) ms -> smonos_op n ms = denote n f ->
  one_factor_per_qubit (fst (terms_of ms)) = true ->
  (fst (terms_of ms) <> [] \/ snd (terms_of ms) <> zi0) ->
  wfm (2 ^ n) 1 psi -> wfm (2 ^ n) (2 ^ n) rho ->
  sym_expect_state_prefix n (terms_of ms) psi = dense_expect_state (denote n f) psi /\
  sym_expect_dm_prefix n (terms_of ms) rho = dense_expect_dm (denote n f) rho.
Proof.
  intros Hm E Hd Hne Hp Hr. unfold sym_expect_state_prefix, sym_expect_dm_prefix, dense_expect_state, dense_expect_dm.
  rewrite (apply_partial n 1 f ms psi), (apply_partial n (2 ^ n) f ms rho) by assumption.
  split; reflexivity.
Qed.

Theorem expectation_full n f ms psi rho :
  Forall (smono_ok n) ms -> smonos_op n ms = denote n f ->
  (fst (terms_of ms) <> [] \/ snd (terms_of ms) <> zi0) ->
  wfm (2 ^ n) 1 psi -> wfm (2 ^ n) (2 ^ n) rho ->
  sym_expect_state n (terms_of ms) psi = dense_expect_state (denote n f) psi /\
  sym_expect_dm n (terms_of ms) rho = dense_expect_dm (denote n f) rho.
Proof.
  intros Hm E Hne Hp Hr. unfold sym_expect_state, sym_expect_dm, dense_expect_state, dense_expect_dm.
  rewrite (apply_full n 1 f ms psi), (apply_full n (2 ^ n) f ms rho) by assumption.
  split; reflexivity.
Qed.

(* ------------------------------------------------------------------ the model's own expansion *)
Definition monos_op (n : nat) (ms : list mono) : mat Zi := msum ZK (map (mono_op n) ms).
Definition mono_ok (n : nat) (m : mono) : Prop := qs_ok n (snd m).

Lemma mono_op_wf n m : wfm (2 ^ n) (2 ^ n) (mono_op n m).
Proof. unfold mono_op. apply mscale_wf, mprod_wf, Forall_sym_wf. Qed.

Lemma mono_mul_op n a b : mono_op n (mono_mul a b) = mmul ZK (mono_op n a) (mono_op n b).
Proof.
  unfold mono_op, mono_mul. cbn [fst snd]. rewrite map_app, mprod_app by apply Forall_sym_wf.
  now rewrite (mscale_mmul_l ZK ZL), (mscale_mmul_r ZK ZL), (mscale_mscale ZK ZL).
Qed.

Lemma monos_mul_op n A B : B <> [] ->
  monos_op n (monos_mul A B) = mmul ZK (monos_op n A) (monos_op n B).
Proof.
  intros HB. unfold monos_op, monos_mul. induction A as [|a A IH]; [reflexivity|].
  cbn [flat_map map]. rewrite map_app, (msum_app ZK ZL), IH, (msum_cons ZK ZL), (mmul_madd_l ZK ZL).
  f_equal. rewrite map_map, (mmul_msum_r ZK ZL) by (destruct B; [congruence|discriminate]).
  rewrite map_map. f_equal. apply map_ext. intros b. apply mono_mul_op.
Qed.

Lemma monos_mul_nonnil A B : A <> [] -> B <> [] -> monos_mul A B <> [].
Proof. destruct A as [|a A]; [congruence|]. destruct B as [|b B]; [congruence|]. intros _ _. discriminate. Qed.
Lemma monos_pow_nonnil A k : A <> [] -> monos_pow A k <> [].
Proof. intros H. induction k; cbn [monos_pow]; [discriminate|now apply monos_mul_nonnil]. Qed.
Lemma expand_nonnil f : expand f <> [].
Proof.
  induction f; cbn [expand]; try discriminate.
  - destruct (expand f1); [congruence|discriminate].
  - now apply monos_mul_nonnil.
  - now apply monos_pow_nonnil.
Qed.

Lemma monos_single n m : monos_op n [m] = mono_op n m.
Proof. unfold monos_op. cbn [map]. now rewrite (msum_cons ZK ZL), (msum_nil ZK), (madd_nil_r ZK). Qed.

Lemma mscale_one X : mscale ZK zi1 X = X.
Proof. apply (mscale_1 ZK ZL). Qed.

Theorem expand_ok n f : monos_op n (expand f) = denote n f.
Proof.
  induction f as [p q|c|a IHa b IHb|a IHa b IHb|a IHa k]; cbn [expand denote].
  - rewrite monos_single. unfold mono_op. cbn [fst snd map]. rewrite mscale_one.
    apply mprod_single, embed_wf.
  - now rewrite monos_single.
  - unfold monos_op in *. now rewrite map_app, (msum_app ZK ZL), IHa, IHb.
  - rewrite monos_mul_op by apply expand_nonnil. now rewrite IHa, IHb.
  - induction k as [|k IHk]; cbn [monos_pow mpow].
    + rewrite monos_single. unfold mono_op. cbn [fst snd map mprod fold_right]. now rewrite mscale_one.
    + rewrite monos_mul_op by (apply monos_pow_nonnil, expand_nonnil). now rewrite IHa, IHk.
Qed.

Lemma pauli_eqb_true a b : pauli_eqb a b = true -> a = b.
Proof. destruct a, b; cbn; congruence. Qed.

Lemma compress_op n l : mprod n (map (sfac_op n) (compress l)) = mprod n (map (sym_op n) l).
Proof.
  induction l as [|[p q] l IH]; [reflexivity|]. cbn [compress map mprod fold_right].
  fold (mprod n (map (sym_op n) l)). rewrite <- IH.
  destruct (compress l) as [|[p' q' k|c] r] eqn:E.
  - cbn. now rewrite (idr n) by apply embed_wf.
  - destruct (pauli_eqb p p' && (q =? q')) eqn:B.
    + apply andb_true_iff in B as [B1 B2]. apply pauli_eqb_true in B1. apply Nat.eqb_eq in B2. subst.
      cbn [map mprod fold_right sfac_op mpow]. fold (mprod n (map (sfac_op n) r)).
      unfold sym_op. cbn [fst snd]. now rewrite (mmul_assoc ZK ZL).
    + cbn [map mprod fold_right sfac_op mpow]. unfold sym_op. cbn [fst snd].
      now rewrite (idr n) by apply embed_wf.
  - cbn [map mprod fold_right sfac_op mpow]. unfold sym_op. cbn [fst snd].
    now rewrite (idr n) by apply embed_wf.
Qed.

Theorem own_expansion_ok n f : smonos_op n (map compress_mono (expand f)) = denote n f.
Proof.
  rewrite <- expand_ok. unfold smonos_op, monos_op. rewrite map_map. f_equal. apply map_ext.
  intros m. unfold smono_op, compress_mono, mono_op. cbn [fst snd]. now rewrite compress_op.
Qed.

Lemma compress_ok n l : qs_ok n l -> Forall (sfac_ok n) (compress l).
Proof.
  induction l as [|[p q] l IH]; intros H; [constructor|]. cbn [compress].
  assert (Hq : q < n) by (apply (H (p, q)); now left).
  assert (Hl : Forall (sfac_ok n) (compress l)) by (apply IH; intros f Hf; apply H; now right).
  destruct (compress l) as [|[p' q' k|c] r].
  - repeat constructor. exact Hq.
  - inversion Hl; subst. destruct (pauli_eqb p p' && (q =? q')); repeat (constructor; try assumption).
  - repeat (constructor; try assumption).
Qed.

Lemma monos_mul_ok n A B : Forall (mono_ok n) A -> Forall (mono_ok n) B -> Forall (mono_ok n) (monos_mul A B).
Proof.
  intros HA HB. apply Forall_forall. intros m Hm. unfold monos_mul in Hm.
  apply in_flat_map in Hm as (a & Ha & Hm). apply in_map_iff in Hm as (b & <- & Hb).
  eapply Forall_forall in HA; [|exact Ha]. eapply Forall_forall in HB; [|exact Hb].
  unfold mono_ok, mono_mul, qs_ok in *. cbn [snd]. intros f Hf. apply in_app_or in Hf as [Hf|Hf]; auto.
Qed.
Lemma expand_qs n f : form_ok n f = true -> Forall (mono_ok n) (expand f).
Proof.
  induction f as [p q|c|a IHa b IHb|a IHa b IHb|a IHa k]; cbn [form_ok expand]; intros H.
  - repeat constructor. intros f [<-|[]]. cbn. now apply Nat.ltb_lt.
  - repeat constructor. intros f [].
  - apply andb_true_iff in H as [H1 H2]. apply Forall_app. split; auto.
  - apply andb_true_iff in H as [H1 H2]. apply monos_mul_ok; auto.
  - induction k; cbn [monos_pow]; [repeat constructor; intros f []|apply monos_mul_ok; auto].
Qed.

(* the whole terms pipeline of the model on its own expansion *)
Theorem model_terms_prod_ok n f : form_ok n f = true ->
  terms_prod_matrix n (model_terms f) = denote n f.
Proof.
  intros H. unfold model_terms. apply terms_prod_ok; [|apply own_expansion_ok].
  apply Forall_forall. intros m Hm. apply in_map_iff in Hm as (m0 & <- & Hm0).
  pose proof (expand_qs n f H) as Hq. eapply Forall_forall in Hq; [|exact Hm0].
  unfold smono_ok, compress_mono. cbn [snd]. now apply compress_ok.
Qed.
