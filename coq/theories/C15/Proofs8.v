(* C15/Proofs8.v : models.Heisenberg (hence XXZ = Heisenberg(n,[-1,-1,-delta],0) and XXX) dense builder
   equals its formula, for every n >= 2 *)
From Coq Require Import ZArith List Bool Arith Lia Permutation.
From QV Require Import Base.Mat Base.Zi C15.MatDefs C15.Model C15.MatAlg C15.Proofs C15.Proofs2 C15.Proofs3 C15.Proofs5.
Import ListNotations.

Definition bond n p k : mat Zi := mmul ZK (sym_op n (p, k)) (sym_op n (p, next n k)).

Lemma spin_pair_p n p i : 1 < n -> i < n ->
  multikron ZK (map (fun j => if cond_pair n i j then pmat p else I2 ZK) (seq 0 n)) =
  mmul ZK (sym_op n (p, prev n i)) (sym_op n (p, i)).
Proof.
  intros Hn Hi. rewrite multikron_cond by lia.
  rewrite !sym_op_mk by (try apply prev_lt; lia).
  rewrite mk_mmul by (intros; apply delta_wf, pmat_wf). apply mk_ext. intros j Hj.
  rewrite cond_pair_spec by assumption. unfold delta.
  pose proof (prev_neq n i Hn Hi).
  destruct (Nat.eqb_spec j (prev n i)); destruct (Nat.eqb_spec j i); cbn [orb]; try lia.
  - now rewrite pmat_I2_r.
  - now rewrite pmat_I2_l.
  - symmetry. apply I2_mmul, I2_wf.
Qed.
Lemma build_pair_p n p : 1 < n ->
  build_spin n (pmat p) (cond_pair n) = msum ZK (map (bond n p) (seq 0 n)).
Proof.
  intros Hn. unfold build_spin.
  transitivity (msum ZK (map (bond n p) (map (prev n) (seq 0 n)))).
  - rewrite map_map. f_equal. apply map_ext_in. intros i Hi. apply in_seq in Hi.
    rewrite spin_pair_p by lia. unfold bond. now rewrite next_prev by lia.
  - apply msum_perm, Permutation_map, rotate_perm. lia.
Qed.

Definition Bs n p := msum ZK (map (bond n p) (seq 0 n)).
Definition Os n p := msum ZK (map (fun k => sym_op n (p, k)) (seq 0 n)).
Lemma Bs_wf n p : 0 < n -> wfm (2 ^ n) (2 ^ n) (Bs n p).
Proof.
  intros H. apply msum_wf2; [apply seq_ne; lia|]. intros k. unfold bond.
  apply (mmul_wf ZK _ (2 ^ n)); try apply sym_op_wf. apply pow2_ne0.
Qed.
Lemma Os_wf n p : 0 < n -> wfm (2 ^ n) (2 ^ n) (Os n p).
Proof. intros H. apply msum_wf2; [apply seq_ne; lia|]. intros k. apply sym_op_wf. Qed.

Lemma mneg_mscale c X : mscale ZK c (mneg X) = mneg (mscale ZK c X).
Proof. unfold mneg. rewrite !(mscale_mscale ZK ZL). f_equal. apply zi_mul_comm. Qed.
Lemma mneg_madd X Y : mneg (madd ZK X Y) = madd ZK (mneg X) (mneg Y).
Proof. apply (mscale_madd ZK ZL). Qed.

Lemma fsum3 n a b c : denote n (fsum [a; b; c]) = madd ZK (madd ZK (denote n a) (denote n b)) (denote n c).
Proof. reflexivity. Qed.

Lemma msum6 a b c d e f :
  madd ZK (madd ZK (madd ZK (madd ZK (madd ZK a d) b) e) c) f =
  madd ZK (madd ZK (madd ZK a b) c) (madd ZK (madd ZK d e) f).
Proof.
  change (madd ZK (madd ZK (madd ZK (madd ZK (madd ZK a d) b) e) c) f) with (msum ZK [a; d; b; e; c; f]).
  change (madd ZK (madd ZK a b) c) with (msum ZK [a; b; c]).
  change (madd ZK (madd ZK d e) f) with (msum ZK [d; e; f]).
  rewrite <- (msum_app ZK ZL). apply msum_perm. cbn [app]. constructor.
  apply (Permutation_cons_app [b; c] [e; f]). cbn [app]. constructor. apply perm_swap.
Qed.

Theorem heis_ok n J hf : 1 < n -> heis_dense n J hf = denote n (heis_form n J hf).
Proof.
  intros Hn. destruct J as [[jx jy] jz]. destruct hf as [[hx hy] hz].
  unfold heis_dense, heis_form. cbn [fold_left]. cbn [denote]. rewrite !denote_fneg.
  rewrite !denote_fsum by (apply seq_nonnil; lia). rewrite !map_map.
  (* the two sums of the formula *)
  assert (EP : msum ZK (map (fun k => denote n (fsum (map (fun pj : pauli * Z =>
                 FMul (FNum (zc (snd pj))) (FMul (FSym (fst pj) k) (FSym (fst pj) ((k + 1) mod n))))
                 [(PX, jx); (PY, jy); (PZ, jz)]))) (seq 0 n))
           = madd ZK (madd ZK (mscale ZK (zc jx) (Bs n PX)) (mscale ZK (zc jy) (Bs n PY))) (mscale ZK (zc jz) (Bs n PZ))).
  { cbn [map fst snd]. 
    rewrite (map_ext _ (fun k => madd ZK (madd ZK (mscale ZK (zc jx) (bond n PX k)) (mscale ZK (zc jy) (bond n PY k)))
                                        (mscale ZK (zc jz) (bond n PZ k)))).
    - rewrite !msum_madd. unfold Bs. now rewrite !(mscale_msum ZK ZL), !map_map.
    - intros k. rewrite fsum3, !denote_scale. reflexivity. }
  assert (EF : msum ZK (map (fun k => denote n (fsum (map (fun ph : pauli * Z =>
                 FMul (FNum (zc (snd ph))) (FSym (fst ph) k)) [(PX, hx); (PY, hy); (PZ, hz)]))) (seq 0 n))
           = madd ZK (madd ZK (mscale ZK (zc hx) (Os n PX)) (mscale ZK (zc hy) (Os n PY))) (mscale ZK (zc hz) (Os n PZ))).
  { cbn [map fst snd].
    rewrite (map_ext _ (fun k => madd ZK (madd ZK (mscale ZK (zc hx) (sym_op n (PX, k))) (mscale ZK (zc hy) (sym_op n (PY, k))))
                                        (mscale ZK (zc hz) (sym_op n (PZ, k))))).
    - rewrite !msum_madd. unfold Os. now rewrite !(mscale_msum ZK ZL), !map_map.
    - intros k. rewrite fsum3, !denote_scale. reflexivity. }
  rewrite EP, EF. clear EP EF.
  unfold onebody_dense. rewrite !build_pair_p, !build_one_ok by lia. fold (Bs n PX) (Bs n PY) (Bs n PZ) (Os n PX) (Os n PY) (Os n PZ).
  unfold msub. rewrite !mneg_mscale, !mneg_madd.
  fold (zerosI n). rewrite madd_zeros_l by (apply mscale_wf, mscale_wf, Bs_wf; lia).
  apply msum6.
Qed.
