(* C15/MatAlg.v : algebra of the list matrices of Base/Mat.v over a commutative (semi)ring given by
   Section hypotheses.  Most laws hold unconditionally because [] behaves as a zero vector /
   matrix of any shape; the identity laws need well-shaped matrices. *)
From Coq Require Import List Arith Bool Lia.
From QV Require Import Base.Mat C15.MatDefs.
Import ListNotations.

Section Alg.
  Context {T : Type} (K : ops T).
  Notation "0" := (zero K). Notation "1" := (one K).
  Notation "a + b" := (add K a b). Notation "a * b" := (mul K a b).
  Hypothesis add_comm : forall a b, a + b = b + a.
  Hypothesis add_assoc : forall a b c, a + (b + c) = (a + b) + c.
  Hypothesis add_0_l : forall a, 0 + a = a.
  Hypothesis mul_comm : forall a b, a * b = b * a.
  Hypothesis mul_assoc : forall a b c, a * (b * c) = (a * b) * c.
  Hypothesis mul_1_l : forall a, 1 * a = a.
  Hypothesis mul_0_l : forall a, 0 * a = 0.
  Hypothesis distr_l : forall a b c, a * (b + c) = a * b + a * c.

  Lemma add_0_r a : a + 0 = a. Proof. now rewrite add_comm, add_0_l. Qed.
  Lemma mul_1_r a : a * 1 = a. Proof. now rewrite mul_comm, mul_1_l. Qed.
  Lemma mul_0_r a : a * 0 = 0. Proof. now rewrite mul_comm, mul_0_l. Qed.
  Lemma distr_r a b c : (a + b) * c = a * c + b * c.
  Proof. now rewrite mul_comm, distr_l, (mul_comm c a), (mul_comm c b). Qed.

  (* ---------------- vectors *)
  Lemma vadd_nil_r u : vadd K u [] = u. Proof. now destruct u. Qed.
  Lemma vadd_comm u : forall v, vadd K u v = vadd K v u.
  Proof. induction u as [|x u IH]; intros [|y v]; simpl; try reflexivity. now rewrite add_comm, IH. Qed.
  Lemma vadd_assoc u : forall v w, vadd K u (vadd K v w) = vadd K (vadd K u v) w.
  Proof.
    induction u as [|x u IH]; intros [|y v] [|z w]; simpl; try reflexivity.
    now rewrite add_assoc, IH.
  Qed.
  Lemma vadd_length u : forall v, length u = length v -> length (vadd K u v) = length u.
  Proof. induction u as [|x u IH]; intros [|y v] H; simpl in *; try lia. now rewrite IH by lia. Qed.
  Lemma vscale_length c v : length (vscale K c v) = length v.
  Proof. apply map_length. Qed.
  Lemma vscale_vadd c u : forall v, vscale K c (vadd K u v) = vadd K (vscale K c u) (vscale K c v).
  Proof. induction u as [|x u IH]; intros [|y v]; simpl; try reflexivity. now rewrite distr_l, IH. Qed.
  Lemma vscale_vscale c d v : vscale K c (vscale K d v) = vscale K (c * d) v.
  Proof. unfold vscale. rewrite map_map. apply map_ext. intros a. apply mul_assoc. Qed.
  Lemma vscale_add c d v : vscale K (c + d) v = vadd K (vscale K c v) (vscale K d v).
  Proof. induction v as [|x v IH]; simpl; [reflexivity|]. now rewrite distr_r, IH. Qed.
  Lemma vscale_1 v : vscale K 1 v = v.
  Proof. unfold vscale. rewrite <- (map_id v) at 2. apply map_ext. apply mul_1_l. Qed.
  Lemma vscale_0 v : vscale K 0 v = repeat 0 (length v).
  Proof. induction v as [|x v IH]; simpl; [reflexivity|]. now rewrite mul_0_l, IH. Qed.
  Lemma vadd_zeros_r v n : n <= length v -> vadd K v (repeat 0 n) = v.
  Proof.
    revert n. induction v as [|x v IH]; intros [|n] H; simpl in *; try reflexivity; try lia.
    now rewrite add_0_r, IH by lia.
  Qed.
  Lemma vadd_zeros_l v n : n <= length v -> vadd K (repeat 0 n) v = v.
  Proof. intros. now rewrite vadd_comm, vadd_zeros_r. Qed.

  (* four-way rearrangement used everywhere *)
  Lemma vadd_swap a b c d : vadd K (vadd K a b) (vadd K c d) = vadd K (vadd K a c) (vadd K b d).
  Proof.
    rewrite <- (vadd_assoc a b), (vadd_assoc b c d), (vadd_comm b c), <- (vadd_assoc c b d).
    now rewrite vadd_assoc.
  Qed.

  (* ---------------- row times matrix *)
  Lemma rowmul_nil_r r : rowmul K r [] = []. Proof. now destruct r. Qed.
  Lemma rowmul_vadd_l u : forall v B, rowmul K (vadd K u v) B = vadd K (rowmul K u B) (rowmul K v B).
  Proof.
    induction u as [|x u IH]; intros [|y v] [|b B]; simpl; try reflexivity.
    - now rewrite vadd_nil_r.
    - rewrite IH, vscale_add. apply vadd_swap.
  Qed.
  Lemma rowmul_vscale_l c a : forall B, rowmul K (vscale K c a) B = vscale K c (rowmul K a B).
  Proof.
    induction a as [|x a IH]; intros [|b B]; simpl; try reflexivity.
    now rewrite IH, vscale_vadd, vscale_vscale.
  Qed.
  Lemma rowmul_assoc r : forall A B, rowmul K (rowmul K r A) B = rowmul K r (mmul K A B).
  Proof.
    induction r as [|x r IH]; intros [|a A] B; simpl; try reflexivity.
    now rewrite rowmul_vadd_l, rowmul_vscale_l, IH.
  Qed.
  Theorem mmul_assoc A B C : mmul K (mmul K A B) C = mmul K A (mmul K B C).
  Proof. unfold mmul. rewrite map_map. apply map_ext. intros r. apply rowmul_assoc. Qed.

  (* ---------------- sums of matrices *)
  Lemma madd_nil_r A : madd K A [] = A. Proof. now destruct A. Qed.
  Lemma madd_comm A : forall B, madd K A B = madd K B A.
  Proof. induction A as [|a A IH]; intros [|b B]; simpl; try reflexivity. now rewrite vadd_comm, IH. Qed.
  Lemma madd_assoc A : forall B C, madd K A (madd K B C) = madd K (madd K A B) C.
  Proof.
    induction A as [|a A IH]; intros [|b B] [|c C]; simpl; try reflexivity.
    now rewrite vadd_assoc, IH.
  Qed.
  Lemma madd_swap a b c d : madd K (madd K a b) (madd K c d) = madd K (madd K a c) (madd K b d).
  Proof.
    rewrite <- (madd_assoc a b), (madd_assoc b c d), (madd_comm b c), <- (madd_assoc c b d).
    now rewrite madd_assoc.
  Qed.
  Lemma rowmul_madd_r r : forall B C, rowmul K r (madd K B C) = vadd K (rowmul K r B) (rowmul K r C).
  Proof.
    induction r as [|x r IH]; intros [|b B] [|c C]; simpl; try reflexivity.
    - now rewrite vadd_nil_r.
    - rewrite IH, vscale_vadd. apply vadd_swap.
  Qed.
  Lemma madd_map {X} (f g : X -> vec T) l :
    madd K (map f l) (map g l) = map (fun x => vadd K (f x) (g x)) l.
  Proof. induction l as [|x l IH]; simpl; [reflexivity|]. now rewrite IH. Qed.
  Theorem mmul_madd_r A B C : mmul K A (madd K B C) = madd K (mmul K A B) (mmul K A C).
  Proof. unfold mmul. rewrite madd_map. apply map_ext. intros r. apply rowmul_madd_r. Qed.
  Theorem mmul_madd_l A : forall B C, mmul K (madd K A B) C = madd K (mmul K A C) (mmul K B C).
  Proof.
    induction A as [|a A IH]; intros [|b B] C; simpl; try reflexivity.
    rewrite rowmul_vadd_l. f_equal. apply IH.
  Qed.

  (* ---------------- scalars *)
  Lemma mscale_mmul_l c A B : mmul K (mscale K c A) B = mscale K c (mmul K A B).
  Proof. unfold mmul, mscale. rewrite !map_map. apply map_ext. intros r. apply rowmul_vscale_l. Qed.
  Lemma rowmul_mscale_r c r : forall B, rowmul K r (mscale K c B) = vscale K c (rowmul K r B).
  Proof.
    induction r as [|x r IH]; intros [|b B]; simpl; try reflexivity.
    rewrite IH, vscale_vadd, !vscale_vscale. now rewrite (mul_comm x c).
  Qed.
  Lemma mscale_mmul_r c A B : mmul K A (mscale K c B) = mscale K c (mmul K A B).
  Proof. unfold mmul at 1 2. unfold mscale at 2. rewrite map_map. apply map_ext. intros r. apply rowmul_mscale_r. Qed.
  Lemma mscale_madd c A : forall B, mscale K c (madd K A B) = madd K (mscale K c A) (mscale K c B).
  Proof. induction A as [|a A IH]; intros [|b B]; simpl; try reflexivity. now rewrite vscale_vadd, IH. Qed.
  Lemma mscale_mscale c d A : mscale K c (mscale K d A) = mscale K (c * d) A.
  Proof. unfold mscale. rewrite map_map. apply map_ext. intros r. apply vscale_vscale. Qed.
  Lemma mscale_add c d A : mscale K (c + d) A = madd K (mscale K c A) (mscale K d A).
  Proof. induction A as [|a A IH]; simpl; [reflexivity|]. now rewrite vscale_add, IH. Qed.
  Lemma mscale_1 A : mscale K 1 A = A.
  Proof. unfold mscale. rewrite <- (map_id A) at 2. apply map_ext. apply vscale_1. Qed.

  (* msum = left fold; as a right fold it is easier to reason about *)
  Lemma fold_madd_acc l : forall A, fold_left (madd K) l A = madd K A (fold_left (madd K) l []).
  Proof.
    induction l as [|x l IH]; intros A; simpl; [now rewrite madd_nil_r|].
    rewrite IH, (IH x). symmetry. apply madd_assoc.
  Qed.
  Lemma msum_cons A l : msum K (A :: l) = madd K A (msum K l).
  Proof. unfold msum. simpl. apply fold_madd_acc. Qed.
  Lemma msum_nil : msum K [] = []. Proof. reflexivity. Qed.
  Lemma msum_app l1 l2 : msum K (l1 ++ l2) = madd K (msum K l1) (msum K l2).
  Proof.
    induction l1 as [|A l1 IH]; simpl; [reflexivity|].
    now rewrite !msum_cons, IH, madd_assoc.
  Qed.
  Lemma mmul_msum_l l B : mmul K (msum K l) B = msum K (map (fun A => mmul K A B) l).
  Proof.
    induction l as [|A l IH]; simpl; [reflexivity|]. now rewrite !msum_cons, mmul_madd_l, IH.
  Qed.
  Lemma mmul_msum_r A l : l <> [] -> mmul K A (msum K l) = msum K (map (mmul K A) l).
  Proof.
    induction l as [|B l IH]; intros H; [congruence|].
    simpl. rewrite !msum_cons. destruct l as [|B' l].
    - simpl. now rewrite !msum_nil, !madd_nil_r.
    - rewrite mmul_madd_r, IH by discriminate. reflexivity.
  Qed.
  Lemma mscale_msum c l : mscale K c (msum K l) = msum K (map (mscale K c) l).
  Proof. induction l as [|A l IH]; simpl; [reflexivity|]. now rewrite !msum_cons, mscale_madd, IH. Qed.
End Alg.
