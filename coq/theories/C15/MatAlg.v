(* C15/MatAlg.v : algebra of the list matrices of Base/Mat.v over a commutative (semi)ring given by
   Section hypotheses.  Most laws hold unconditionally because [] behaves as a zero vector /
   matrix of any shape; the identity laws need well-shaped matrices. *)
From Coq Require Import List Arith Bool Lia Sorted.
From QV Require Import Base.Mat C15.MatDefs.
Import ListNotations.

Record ring_laws {T : Type} (K : ops T) : Prop := mk_ring_laws {
  rl_add_comm : forall a b, add K a b = add K b a;
  rl_add_assoc : forall a b c, add K a (add K b c) = add K (add K a b) c;
  rl_add_0_l : forall a, add K (zero K) a = a;
  rl_mul_comm : forall a b, mul K a b = mul K b a;
  rl_mul_assoc : forall a b c, mul K a (mul K b c) = mul K (mul K a b) c;
  rl_mul_1_l : forall a, mul K (one K) a = a;
  rl_mul_0_l : forall a, mul K (zero K) a = zero K;
  rl_distr_l : forall a b c, mul K a (add K b c) = add K (mul K a b) (mul K a c)
}.

Section Alg.
  Context {T : Type} (K : ops T).
  Notation "0" := (zero K). Notation "1" := (one K).
  Notation "a + b" := (add K a b). Notation "a * b" := (mul K a b).
  Hypothesis RL : ring_laws K.
  Let add_comm : forall a b, a + b = b + a := rl_add_comm K RL.
  Let add_assoc : forall a b c, a + (b + c) = (a + b) + c := rl_add_assoc K RL.
  Let add_0_l : forall a, 0 + a = a := rl_add_0_l K RL.
  Let mul_comm : forall a b, a * b = b * a := rl_mul_comm K RL.
  Let mul_assoc : forall a b c, a * (b * c) = (a * b) * c := rl_mul_assoc K RL.
  Let mul_1_l : forall a, 1 * a = a := rl_mul_1_l K RL.
  Let mul_0_l : forall a, 0 * a = 0 := rl_mul_0_l K RL.
  Let distr_l : forall a b c, a * (b + c) = a * b + a * c := rl_distr_l K RL.

  Lemma add_0_r a : a + 0 = a. Proof. now rewrite add_comm, add_0_l. Qed.
  Lemma mul_1_r a : a * 1 = a. Proof. now rewrite mul_comm, mul_1_l. Qed.
  Lemma mul_0_r a : a * 0 = 0. Proof. now rewrite mul_comm, mul_0_l. Qed.
  Lemma distr_r a b c : (a + b) * c = a * c + b * c.
  Proof. now rewrite mul_comm, distr_l, (mul_comm c a), (mul_comm c b). Qed.

  (* ---------------- vectors *)
  Lemma vadd_nil_r u : vadd K u [] = u. Proof. now destruct u. Qed.
  Lemma vadd_comm u : forall v, vadd K u v = vadd K v u.
  Proof. induction u as [|x u IH]; intros [|y v]; simpl; try reflexivity. now rewrite add_comm, IH. Qed.
  Lemma vadd_assoc u : forall v w, vadd K u (vadd K v w) = vadd K (vadd K u v) w.
  Proof.
    induction u as [|x u IH]; intros [|y v] [|z w]; simpl; try reflexivity.
    now rewrite add_assoc, IH.
  Qed.
  Lemma vadd_length u : forall v, length u = length v -> length (vadd K u v) = length u.
  Proof. induction u as [|x u IH]; intros [|y v] H; simpl in *; try lia. now rewrite IH by lia. Qed.
  Lemma vscale_length c v : length (vscale K c v) = length v.
  Proof. apply map_length. Qed.
  Lemma vscale_vadd c u : forall v, vscale K c (vadd K u v) = vadd K (vscale K c u) (vscale K c v).
  Proof. induction u as [|x u IH]; intros [|y v]; simpl; try reflexivity. now rewrite distr_l, IH. Qed.
  Lemma vscale_vscale c d v : vscale K c (vscale K d v) = vscale K (c * d) v.
  Proof. unfold vscale. rewrite map_map. apply map_ext. intros a. apply mul_assoc. Qed.
  Lemma vscale_add c d v : vscale K (c + d) v = vadd K (vscale K c v) (vscale K d v).
  Proof. induction v as [|x v IH]; simpl; [reflexivity|]. now rewrite distr_r, IH. Qed.
  Lemma vscale_1 v : vscale K 1 v = v.
  Proof. unfold vscale. rewrite <- (map_id v) at 2. apply map_ext. apply mul_1_l. Qed.
  Lemma vscale_0 v : vscale K 0 v = repeat 0 (length v).
  Proof. induction v as [|x v IH]; simpl; [reflexivity|]. now rewrite mul_0_l, IH. Qed.
  Lemma vadd_zeros_r v n : n <= length v -> vadd K v (repeat 0 n) = v.
  Proof.
    revert n. induction v as [|x v IH]; intros [|n] H; simpl in *; try reflexivity; try lia.
    now rewrite add_0_r, IH by lia.
  Qed.
  Lemma vadd_zeros_l v n : n <= length v -> vadd K (repeat 0 n) v = v.
  Proof. intros. now rewrite vadd_comm, vadd_zeros_r. Qed.

  (* four-way rearrangement used everywhere *)
  Lemma vadd_swap a b c d : vadd K (vadd K a b) (vadd K c d) = vadd K (vadd K a c) (vadd K b d).
  Proof.
    rewrite <- (vadd_assoc a b), (vadd_assoc b c d), (vadd_comm b c), <- (vadd_assoc c b d).
    now rewrite vadd_assoc.
  Qed.

  (* ---------------- row times matrix *)
  Lemma rowmul_nil_r r : rowmul K r [] = []. Proof. now destruct r. Qed.
  Lemma rowmul_vadd_l u : forall v B, rowmul K (vadd K u v) B = vadd K (rowmul K u B) (rowmul K v B).
  Proof.
    induction u as [|x u IH]; intros [|y v] [|b B]; simpl; try reflexivity.
    - now rewrite vadd_nil_r.
    - rewrite IH, vscale_add. apply vadd_swap.
  Qed.
  Lemma rowmul_vscale_l c a : forall B, rowmul K (vscale K c a) B = vscale K c (rowmul K a B).
  Proof.
    induction a as [|x a IH]; intros [|b B]; simpl; try reflexivity.
    now rewrite IH, vscale_vadd, vscale_vscale.
  Qed.
  Lemma rowmul_assoc r : forall A B, rowmul K (rowmul K r A) B = rowmul K r (mmul K A B).
  Proof.
    induction r as [|x r IH]; intros [|a A] B; simpl; try reflexivity.
    now rewrite rowmul_vadd_l, rowmul_vscale_l, IH.
  Qed.
  Theorem mmul_assoc A B C : mmul K (mmul K A B) C = mmul K A (mmul K B C).
  Proof. unfold mmul. rewrite map_map. apply map_ext. intros r. apply rowmul_assoc. Qed.

  (* ---------------- sums of matrices *)
  Lemma madd_nil_r A : madd K A [] = A. Proof. now destruct A. Qed.
  Lemma madd_comm A : forall B, madd K A B = madd K B A.
  Proof. induction A as [|a A IH]; intros [|b B]; simpl; try reflexivity. now rewrite vadd_comm, IH. Qed.
  Lemma madd_assoc A : forall B C, madd K A (madd K B C) = madd K (madd K A B) C.
  Proof.
    induction A as [|a A IH]; intros [|b B] [|c C]; simpl; try reflexivity.
    now rewrite vadd_assoc, IH.
  Qed.
  Lemma madd_swap a b c d : madd K (madd K a b) (madd K c d) = madd K (madd K a c) (madd K b d).
  Proof.
    rewrite <- (madd_assoc a b), (madd_assoc b c d), (madd_comm b c), <- (madd_assoc c b d).
    now rewrite madd_assoc.
  Qed.
  Lemma rowmul_madd_r r : forall B C, rowmul K r (madd K B C) = vadd K (rowmul K r B) (rowmul K r C).
  Proof.
    induction r as [|x r IH]; intros [|b B] [|c C]; simpl; try reflexivity.
    - now rewrite vadd_nil_r.
    - rewrite IH, vscale_vadd. apply vadd_swap.
  Qed.
  Lemma madd_map {X} (f g : X -> vec T) l :
    madd K (map f l) (map g l) = map (fun x => vadd K (f x) (g x)) l.
  Proof. induction l as [|x l IH]; simpl; [reflexivity|]. now rewrite IH. Qed.
  Theorem mmul_madd_r A B C : mmul K A (madd K B C) = madd K (mmul K A B) (mmul K A C).
  Proof. unfold mmul. rewrite madd_map. apply map_ext. intros r. apply rowmul_madd_r. Qed.
  Theorem mmul_madd_l A : forall B C, mmul K (madd K A B) C = madd K (mmul K A C) (mmul K B C).
  Proof.
    induction A as [|a A IH]; intros [|b B] C; simpl; try reflexivity.
    rewrite rowmul_vadd_l. f_equal. apply IH.
  Qed.

  (* ---------------- scalars *)
  Lemma mscale_mmul_l c A B : mmul K (mscale K c A) B = mscale K c (mmul K A B).
  Proof. unfold mmul, mscale. rewrite !map_map. apply map_ext. intros r. apply rowmul_vscale_l. Qed.
  Lemma rowmul_mscale_r c r : forall B, rowmul K r (mscale K c B) = vscale K c (rowmul K r B).
  Proof.
    induction r as [|x r IH]; intros [|b B]; simpl; try reflexivity.
    rewrite IH, vscale_vadd, !vscale_vscale. now rewrite (mul_comm x c).
  Qed.
  Lemma mscale_mmul_r c A B : mmul K A (mscale K c B) = mscale K c (mmul K A B).
  Proof. unfold mmul at 1 2. unfold mscale at 2. rewrite map_map. apply map_ext. intros r. apply rowmul_mscale_r. Qed.
  Lemma mscale_madd c A : forall B, mscale K c (madd K A B) = madd K (mscale K c A) (mscale K c B).
  Proof. induction A as [|a A IH]; intros [|b B]; simpl; try reflexivity. now rewrite vscale_vadd, IH. Qed.
  Lemma mscale_mscale c d A : mscale K c (mscale K d A) = mscale K (c * d) A.
  Proof. unfold mscale. rewrite map_map. apply map_ext. intros r. apply vscale_vscale. Qed.
  Lemma mscale_add c d A : mscale K (c + d) A = madd K (mscale K c A) (mscale K d A).
  Proof. induction A as [|a A IH]; simpl; [reflexivity|]. now rewrite vscale_add, IH. Qed.
  Lemma mscale_1 A : mscale K 1 A = A.
  Proof. unfold mscale. rewrite <- (map_id A) at 2. apply map_ext. apply vscale_1. Qed.

  (* msum = left fold; as a right fold it is easier to reason about *)
  Lemma fold_madd_acc l : forall A, fold_left (madd K) l A = madd K A (fold_left (madd K) l []).
  Proof.
    induction l as [|x l IH]; intros A; simpl; [now rewrite madd_nil_r|].
    rewrite IH, (IH x). symmetry. apply madd_assoc.
  Qed.
  Lemma msum_cons A l : msum K (A :: l) = madd K A (msum K l).
  Proof. unfold msum. simpl. apply fold_madd_acc. Qed.
  Lemma msum_nil : msum K [] = []. Proof. reflexivity. Qed.
  Lemma msum_app l1 l2 : msum K (l1 ++ l2) = madd K (msum K l1) (msum K l2).
  Proof.
    induction l1 as [|A l1 IH]; simpl; [reflexivity|].
    now rewrite !msum_cons, IH, madd_assoc.
  Qed.
  Lemma mmul_msum_l l B : mmul K (msum K l) B = msum K (map (fun A => mmul K A B) l).
  Proof.
    induction l as [|A l IH]; simpl; [reflexivity|]. now rewrite !msum_cons, mmul_madd_l, IH.
  Qed.
  Lemma mmul_msum_r A l : l <> [] -> mmul K A (msum K l) = msum K (map (mmul K A) l).
  Proof.
    induction l as [|B l IH]; intros H; [congruence|].
    simpl. rewrite !msum_cons. destruct l as [|B' l].
    - simpl. now rewrite !msum_nil, !madd_nil_r.
    - rewrite mmul_madd_r, IH by discriminate. reflexivity.
  Qed.
  Lemma mscale_msum c l : mscale K c (msum K l) = msum K (map (mscale K c) l).
  Proof. induction l as [|A l IH]; simpl; [reflexivity|]. now rewrite !msum_cons, mscale_madd, IH. Qed.

  (* ---------------- shapes *)
  Definition wfm (r c : nat) (M : mat T) : Prop := length M = r /\ Forall (fun row => length row = c) M.

  Lemma allbits_length n : length (allbits n) = 2 ^ n.
  Proof. induction n; simpl; [reflexivity|]. rewrite app_length, !map_length, IHn. lia. Qed.
  Lemma allbits_In_length n : forall b, In b (allbits n) -> length b = n.
  Proof.
    induction n; simpl; intros b H.
    - destruct H as [<-|[]]. reflexivity.
    - apply in_app_or in H as [H|H]; apply in_map_iff in H as (b' & <- & H'); simpl; now rewrite IHn.
  Qed.
  Lemma map_const_repeat {X} (x : T) (l : list X) : map (fun _ => x) l = repeat x (length l).
  Proof. induction l; simpl; congruence. Qed.

  Lemma midentity_S n :
    midentity K (S n) = map (fun row => row ++ repeat 0 (2 ^ n)) (midentity K n)
                        ++ map (fun row => repeat 0 (2 ^ n) ++ row) (midentity K n).
  Proof.
    unfold midentity. cbn [allbits]. rewrite map_app, !map_map. f_equal; apply map_ext; intros r;
      rewrite map_app, !map_map; cbn [beqb Bool.eqb andb].
    - f_equal. now rewrite map_const_repeat, allbits_length.
    - f_equal. now rewrite map_const_repeat, allbits_length.
  Qed.
  Lemma midentity_wf n : wfm (2 ^ n) (2 ^ n) (midentity K n).
  Proof.
    unfold wfm, midentity. rewrite map_length, allbits_length. split; [reflexivity|].
    apply Forall_forall. intros r H. apply in_map_iff in H as (b & <- & _).
    now rewrite map_length, allbits_length.
  Qed.

  Lemma rowmul_app u : forall P v Q, length u = length P ->
    rowmul K (u ++ v) (P ++ Q) = vadd K (rowmul K u P) (rowmul K v Q).
  Proof.
    induction u as [|x u IH]; intros [|p P] v Q H; simpl in *; try lia; [reflexivity|].
    rewrite IH by lia. apply vadd_assoc.
  Qed.
  Lemma rowmul_zeros c m : forall Q v, Forall (fun row => length row = c) Q -> length v = c ->
    vadd K v (rowmul K (repeat 0 m) Q) = v.
  Proof.
    induction m as [|m IH]; intros [|q Q] v HQ Hv; simpl; try apply vadd_nil_r.
    inversion HQ as [|? ? Hq HQ']; subst.
    rewrite vadd_assoc, vscale_0, vadd_zeros_r by lia. now apply IH.
  Qed.
  Lemma rowmul_length c r : forall B, length r = length B -> B <> [] ->
    Forall (fun row => length row = c) B -> length (rowmul K r B) = c.
  Proof.
    induction r as [|x r IH]; intros [|b B] H Hne HB; simpl in *; try lia; try (exfalso; apply Hne; reflexivity).
    inversion HB as [|? ? Hb HB']; subst. destruct B as [|b' B].
    - rewrite rowmul_nil_r, vadd_nil_r. apply vscale_length.
    - rewrite vadd_length; rewrite ?vscale_length; [reflexivity|].
      rewrite IH; [reflexivity|simpl in *; lia|discriminate|assumption].
  Qed.

  Lemma firstn_skipn_wf (a b c : nat) (A : mat T) : wfm (a + b)%nat c A ->
    wfm a c (firstn a A) /\ wfm b c (skipn a A).
  Proof.
    intros [HL HF]. unfold wfm. rewrite firstn_length, skipn_length.
    repeat split; try lia.
    - apply Forall_forall. intros r Hr. eapply Forall_forall in HF; [exact HF|].
      rewrite <- (firstn_skipn a A). apply in_or_app. now left.
    - apply Forall_forall. intros r Hr. eapply Forall_forall in HF; [exact HF|].
      rewrite <- (firstn_skipn a A). apply in_or_app. now right.
  Qed.

  Lemma pow2_pos n : (0 < 2 ^ n)%nat. Proof. induction n; simpl; lia. Qed.

  Theorem mmul_id_l n : forall c A, wfm (2 ^ n) c A -> mmul K (midentity K n) A = A.
  Proof.
    induction n as [|n IH]; intros c A HA.
    - destruct HA as [HL HF]. destruct A as [|a [|? ?]]; simpl in HL; try lia.
      cbn. now rewrite vscale_1, vadd_nil_r.
    - assert (H2 : (2 ^ S n = 2 ^ n + 2 ^ n)%nat) by (simpl; lia). rewrite H2 in HA.
      destruct (firstn_skipn_wf _ _ _ _ HA) as [[L1 F1] [L2 F2]].
      rewrite <- (firstn_skipn (2 ^ n) A) at 2. rewrite <- (firstn_skipn (2 ^ n) A) at 1.
      set (A1 := firstn (2 ^ n) A) in *. set (A2 := skipn (2 ^ n) A) in *.
      rewrite midentity_S. unfold mmul. rewrite map_app, !map_map.
      destruct (midentity_wf n) as [IL IF].
      assert (Hne1 : A1 <> []) by (intro E; rewrite E in L1; simpl in L1; pose proof (pow2_pos n); lia).
      assert (Hne2 : A2 <> []) by (intro E; rewrite E in L2; simpl in L2; pose proof (pow2_pos n); lia).
      f_equal.
      + transitivity (mmul K (midentity K n) A1); [|apply (IH c); split; assumption]. unfold mmul.
        apply map_ext_in. intros r Hr. eapply Forall_forall in IF; [|exact Hr].
        rewrite rowmul_app by lia. apply (rowmul_zeros c); [assumption|].
        apply rowmul_length; [lia|assumption|assumption].
      + transitivity (mmul K (midentity K n) A2); [|apply (IH c); split; assumption]. unfold mmul.
        apply map_ext_in. intros r Hr. eapply Forall_forall in IF; [|exact Hr].
        rewrite rowmul_app by (rewrite repeat_length; lia). rewrite vadd_comm.
        apply (rowmul_zeros c); [assumption|].
        apply rowmul_length; [lia|assumption|assumption].
  Qed.

  Lemma vadd_app a : forall b a' b', length a = length b ->
    vadd K (a ++ a') (b ++ b') = vadd K a b ++ vadd K a' b'.
  Proof. induction a as [|x a IH]; intros [|y b] a' b' H; simpl in *; try lia; [reflexivity|]. now rewrite IH by lia. Qed.
  Lemma vscale_app c u v : vscale K c (u ++ v) = vscale K c u ++ vscale K c v.
  Proof. apply map_app. Qed.
  Lemma vscale_zeros c m : vscale K c (repeat 0 m) = repeat 0 m.
  Proof. induction m; simpl; [reflexivity|]. now rewrite mul_0_r, IHm. Qed.
  Lemma vadd_zeros_zeros m : vadd K (repeat 0 m) (repeat 0 m) = repeat 0 m.
  Proof. apply vadd_zeros_r. now rewrite repeat_length. Qed.

  Lemma rowmul_map_app_r c m r : forall B, length r = length B -> B <> [] ->
    Forall (fun row => length row = c) B ->
    rowmul K r (map (fun row => row ++ repeat 0 m) B) = rowmul K r B ++ repeat 0 m.
  Proof.
    induction r as [|x r IH]; intros [|b B] H Hne HB; simpl in *; try lia; try (exfalso; apply Hne; reflexivity).
    inversion HB as [|? ? Hb HB']; subst. destruct B as [|b' B].
    - simpl. rewrite !rowmul_nil_r, !vadd_nil_r, vscale_app, vscale_zeros. reflexivity.
    - rewrite IH; [|simpl in *; lia|discriminate|assumption].
      rewrite vscale_app, vscale_zeros, vadd_app, vadd_zeros_zeros; [reflexivity|].
      rewrite vscale_length. symmetry. apply rowmul_length; [simpl in *; lia|discriminate|assumption].
  Qed.
  Lemma rowmul_map_app_l c m r : forall B, length r = length B -> B <> [] ->
    Forall (fun row => length row = c) B ->
    rowmul K r (map (fun row => repeat 0 m ++ row) B) = repeat 0 m ++ rowmul K r B.
  Proof.
    induction r as [|x r IH]; intros [|b B] H Hne HB; simpl in *; try lia; try (exfalso; apply Hne; reflexivity).
    inversion HB as [|? ? Hb HB']; subst. destruct B as [|b' B].
    - simpl. rewrite !rowmul_nil_r, !vadd_nil_r, vscale_app, vscale_zeros. reflexivity.
    - rewrite IH; [|simpl in *; lia|discriminate|assumption].
      rewrite vscale_app, vscale_zeros, vadd_app, vadd_zeros_zeros; [reflexivity|].
      now rewrite !repeat_length.
  Qed.

  Lemma rowmul_id_r n : forall r, length r = 2 ^ n -> rowmul K r (midentity K n) = r.
  Proof.
    induction n as [|n IH]; intros r H.
    - destruct r as [|x [|? ?]]; simpl in H; try lia. cbn. now rewrite mul_1_r.
    - assert (H2 : (2 ^ S n = 2 ^ n + 2 ^ n)%nat) by (simpl; lia).
      rewrite <- (firstn_skipn (2 ^ n) r). set (r1 := firstn (2 ^ n) r). set (r2 := skipn (2 ^ n) r).
      assert (L1 : length r1 = 2 ^ n) by (unfold r1; rewrite firstn_length; lia).
      assert (L2 : length r2 = 2 ^ n) by (unfold r2; rewrite skipn_length; lia).
      destruct (midentity_wf n) as [IL IF].
      assert (Hne : midentity K n <> []) by (intro E; rewrite E in IL; simpl in IL; pose proof (pow2_pos n); lia).
      rewrite midentity_S, rowmul_app by (rewrite map_length; lia).
      rewrite (rowmul_map_app_r (2 ^ n)), (rowmul_map_app_l (2 ^ n)), !IH by (assumption || lia).
      rewrite vadd_app by (rewrite repeat_length; lia).
      rewrite vadd_zeros_r, vadd_zeros_l by lia. reflexivity.
  Qed.
  Theorem mmul_id_r n A : Forall (fun row => length row = 2 ^ n) A -> mmul K A (midentity K n) = A.
  Proof.
    intros H. unfold mmul. rewrite <- (map_id A) at 2. apply map_ext_in. intros r Hr.
    eapply Forall_forall in H; [|exact Hr]. now apply rowmul_id_r.
  Qed.

  (* shapes are preserved *)
  Lemma mmul_wf a b c A B : wfm a b A -> wfm b c B -> b <> 0%nat -> wfm a c (mmul K A B).
  Proof.
    intros [LA FA] [LB FB] Hb. split; [unfold mmul; now rewrite map_length|].
    apply Forall_forall. intros r Hr. apply in_map_iff in Hr as (r0 & <- & Hr0).
    eapply Forall_forall in FA; [|exact Hr0]. apply rowmul_length; [lia| |assumption].
    intro E. rewrite E in LB. simpl in LB. lia.
  Qed.
  Lemma madd_wf a b A : forall B, wfm a b A -> wfm a b B -> wfm a b (madd K A B).
  Proof.
    revert a. induction A as [|x A IH]; intros a [|y B] [LA FA] [LB FB]; simpl in *; try (split; assumption).
    inversion FA as [|? ? Hx FA']; inversion FB as [|? ? Hy FB']; subst.
    destruct (IH (length A) B) as [L F]; [split; [reflexivity|assumption] | split; [lia|assumption]|].
    split; [simpl; lia|]. constructor; [|assumption]. rewrite vadd_length by lia. reflexivity.
  Qed.
  Lemma mscale_wf a b c A : wfm a b A -> wfm a b (mscale K c A).
  Proof.
    intros [L F]. split; [unfold mscale; now rewrite map_length|].
    apply Forall_forall. intros r Hr. apply in_map_iff in Hr as (r0 & <- & Hr0).
    eapply Forall_forall in F; [|exact Hr0]. now rewrite vscale_length.
  Qed.
  Lemma mpow_wf n M k : wfm (2 ^ n) (2 ^ n) M -> wfm (2 ^ n) (2 ^ n) (mpow K n M k).
  Proof.
    intros H. induction k; simpl; [apply midentity_wf|].
    apply (mmul_wf _ (2 ^ n)); try assumption. pose proof (pow2_pos n). lia.
  Qed.

  (* ---------------- Kronecker products *)
  Lemma krow_app a a' b : krow K (a ++ a') b = krow K a b ++ krow K a' b.
  Proof. induction a as [|x a IH]; simpl; [reflexivity|]. now rewrite IH, app_assoc. Qed.
  Lemma krow_vscale c a b : krow K (vscale K c a) b = vscale K c (krow K a b).
  Proof.
    induction a as [|x a IH]; simpl; [reflexivity|].
    now rewrite IH, vscale_app, vscale_vscale.
  Qed.
  Lemma krow_assoc a b c : krow K (krow K a b) c = krow K a (krow K b c).
  Proof.
    induction a as [|x a IH]; simpl; [reflexivity|]. now rewrite krow_app, krow_vscale, IH.
  Qed.
  Lemma kron_app A A' B : kron K (A ++ A') B = kron K A B ++ kron K A' B.
  Proof. unfold kron. apply flat_map_app. Qed.
  Lemma kron_map_krow ra B C :
    kron K (map (fun rb => krow K ra rb) B) C = map (fun r => krow K ra r) (kron K B C).
  Proof.
    unfold kron. induction B as [|rb B IH]; simpl; [reflexivity|].
    rewrite IH, map_app, map_map. f_equal. apply map_ext. intros rc. apply krow_assoc.
  Qed.
  Theorem kron_assoc A B C : kron K (kron K A B) C = kron K A (kron K B C).
  Proof.
    induction A as [|ra A IH]; [reflexivity|].
    change (kron K (ra :: A) B) with (map (fun rb => krow K ra rb) B ++ kron K A B).
    rewrite kron_app, IH, kron_map_krow. reflexivity.
  Qed.
  Lemma krow_one a : krow K a [1] = a.
  Proof. induction a as [|x a IH]; simpl; [reflexivity|]. now rewrite mul_1_r, IH. Qed.
  Lemma kron_one_r A : kron K A [[1]] = A.
  Proof. unfold kron. induction A as [|ra A IH]; simpl; [reflexivity|]. f_equal; [apply krow_one|exact IH]. Qed.

  Definition kronr (l : list (mat T)) : mat T := fold_right (kron K) [[1]] l.
  Lemma fold_left_kron t : forall h, fold_left (kron K) t h = kron K h (kronr t).
  Proof.
    induction t as [|x t IH]; intros h; simpl; [now rewrite kron_one_r|].
    now rewrite IH, kron_assoc.
  Qed.
  Lemma multikron_kronr l : l <> [] -> multikron K l = kronr l.
  Proof. destruct l as [|h t]; [congruence|]. intros _. apply fold_left_kron. Qed.
  Lemma mkfrom_kronr n : forall i g, mkfrom K i n g = kronr (map g (seq i n)).
  Proof. induction n as [|n IH]; intros i g; simpl; [reflexivity|]. now rewrite IH. Qed.
  Lemma mkfrom_ext n : forall i g h, (forall j, (i <= j < i + n)%nat -> g j = h j) ->
    mkfrom K i n g = mkfrom K i n h.
  Proof.
    induction n as [|n IH]; intros i g h H; simpl; [reflexivity|].
    rewrite (H i) by lia. f_equal. apply IH. intros j Hj. apply H. lia.
  Qed.

  (* kron with the 2x2 identity and with a literal 2x2 matrix, row-wise *)
  Lemma kron_I2 M : kron K (I2 K) M =
    map (fun rb => rb ++ repeat 0 (length rb)) M ++ map (fun rb => repeat 0 (length rb) ++ rb) M.
  Proof.
    unfold kron, I2. simpl. rewrite app_nil_r. f_equal; apply map_ext; intros rb;
      now rewrite vscale_1, vscale_0, app_nil_r.
  Qed.
  Lemma midentity_kron n : midentity K (S n) = kron K (I2 K) (midentity K n).
  Proof.
    rewrite midentity_S, kron_I2. destruct (midentity_wf n) as [_ F].
    f_equal; apply map_ext_in; intros r Hr; (eapply Forall_forall in F; [|exact Hr]); now rewrite F.
  Qed.
  Lemma mkfrom_I2 n : forall i, mkfrom K i n (fun _ => I2 K) = midentity K n.
  Proof. induction n as [|n IH]; intros i; simpl; [reflexivity|]. now rewrite IH, midentity_kron. Qed.

  (* ---------------- embed, one step of the recursion over the register *)
  Lemma existsb_shift i qs : existsb (Nat.eqb (S i)) (map S qs) = existsb (Nat.eqb i) qs.
  Proof. induction qs as [|q qs IH]; cbn [existsb map]; [reflexivity|]. rewrite IH. reflexivity. Qed.
  Lemma agree_off_from_shift qs r : forall i c,
    agree_off_from (S i) (map S qs) r c = agree_off_from i qs r c.
  Proof.
    induction r as [|x r IH]; intros i [|y c]; cbn [agree_off_from]; try reflexivity.
    now rewrite existsb_shift, IH.
  Qed.
  Lemma agree_off_from_zero r : forall i c, agree_off_from (S i) [0%nat] r c = beqb r c.
  Proof. induction r as [|x r IH]; intros i [|y c]; cbn [agree_off_from beqb existsb Nat.eqb orb]; try reflexivity. now rewrite IH. Qed.
  Lemma sel_shift qs b r : sel (map S qs) (b :: r) = sel qs r.
  Proof. unfold sel. rewrite map_map. reflexivity. Qed.

  Definition entry (qs : list nat) (M : mat T) (r c : list bool) : T :=
    if agree_off qs r c then mget K M (idx (sel qs r)) (idx (sel qs c)) else 0.
  Lemma embed_entry n qs M :
    embed K n qs M = map (fun r => map (fun c => entry qs M r c) (allbits n)) (allbits n).
  Proof. reflexivity. Qed.

  Lemma embed_S_shift n qs M : embed K (S n) (map S qs) M = kron K (I2 K) (embed K n qs M).
  Proof.
    rewrite kron_I2, !embed_entry. cbn [allbits]. rewrite map_app, !map_map.
    f_equal; apply map_ext; intros r; rewrite map_app, !map_map, map_length.
    - f_equal.
      + apply map_ext. intros c. unfold entry, agree_off. cbn [agree_off_from].
        rewrite agree_off_from_shift, !sel_shift.
        replace (existsb (Nat.eqb 0) (map S qs)) with false
          by (clear; induction qs; simpl; auto). reflexivity.
      + rewrite <- map_const_repeat. apply map_ext. intros c. unfold entry, agree_off. cbn [agree_off_from].
        replace (existsb (Nat.eqb 0) (map S qs)) with false
          by (clear; induction qs; simpl; auto). reflexivity.
    - f_equal.
      + rewrite <- map_const_repeat. apply map_ext. intros c. unfold entry, agree_off. cbn [agree_off_from].
        replace (existsb (Nat.eqb 0) (map S qs)) with false
          by (clear; induction qs; simpl; auto). reflexivity.
      + apply map_ext. intros c. unfold entry, agree_off. cbn [agree_off_from].
        rewrite agree_off_from_shift, !sel_shift.
        replace (existsb (Nat.eqb 0) (map S qs)) with false
          by (clear; induction qs; simpl; auto). reflexivity.
  Qed.

  Lemma embed_S_zero n a b c d :
    embed K (S n) [0%nat] [[a; b]; [c; d]] = kron K [[a; b]; [c; d]] (midentity K n).
  Proof.
    rewrite embed_entry. unfold kron, midentity. cbn [allbits flat_map]. rewrite app_nil_r, map_app, !map_map.
    f_equal; apply map_ext; intros r; rewrite map_app, !map_map; cbn [krow]; rewrite app_nil_r;
      unfold vscale; rewrite !map_map; f_equal; apply map_ext; intros x;
      unfold entry, agree_off; cbn [agree_off_from existsb Nat.eqb orb andb];
      rewrite agree_off_from_zero; unfold sel; cbn [map nth idx idx_acc];
      destruct (beqb r x); cbn; now rewrite ?mul_1_r, ?mul_0_r.
  Qed.

  Theorem embed_single n : forall i q a b c d, (q < n)%nat ->
    embed K n [q] [[a; b]; [c; d]] =
    mkfrom K i n (fun j => if (j =? i + q)%nat then [[a; b]; [c; d]] else I2 K).
  Proof.
    induction n as [|n IH]; intros i q a b c d H; [lia|].
    destruct q as [|q].
    - cbn [mkfrom]. rewrite Nat.add_0_r, Nat.eqb_refl, embed_S_zero. f_equal.
      rewrite <- (mkfrom_I2 n (S i)). apply mkfrom_ext. intros j Hj.
      destruct (Nat.eqb_spec j i); [lia|reflexivity].
    - cbn [mkfrom]. destruct (Nat.eqb_spec i (i + S q)); [lia|].
      change [S q] with (map S [q]). rewrite embed_S_shift. f_equal.
      rewrite (IH (S i) q) by lia. apply mkfrom_ext. intros j Hj.
      replace (S i + q)%nat with (i + S q)%nat by lia. reflexivity.
  Qed.

  (* Symbol.full_matrix *)
  Lemma repeat_map_seq {X} (x : X) m i : repeat x m = map (fun _ => x) (seq i m).
  Proof. revert i. induction m; intros i; simpl; [reflexivity|]. now rewrite <- IHm. Qed.
  Theorem full_matrix_embed n q a b c d : (q < n)%nat ->
    multikron K (repeat (I2 K) q ++ [[[a; b]; [c; d]]] ++ repeat (I2 K) (n - q - 1)) =
    embed K n [q] [[a; b]; [c; d]].
  Proof.
    intros H. rewrite multikron_kronr by (destruct q; discriminate).
    rewrite (embed_single n 0 q) by assumption. unfold mk. rewrite mkfrom_kronr. f_equal.
    replace n with (q + (1 + (n - q - 1)))%nat at 2 by lia.
    rewrite !seq_app, !map_app. cbn [seq map Nat.add]. rewrite Nat.eqb_refl.
    f_equal; [|f_equal].
    - rewrite (repeat_map_seq _ q 0). apply map_ext_in. intros j Hj. apply in_seq in Hj.
      destruct (Nat.eqb_spec j q); [lia|reflexivity].
    - rewrite (repeat_map_seq _ (n - q - 1) (q + 1)). apply map_ext_in. intros j Hj. apply in_seq in Hj.
      destruct (Nat.eqb_spec j q); [lia|reflexivity].
  Qed.

  (* ---------------- mixed-product property *)
  Lemma krow_nil_r a : krow K a [] = [].
  Proof. induction a as [|x a IH]; simpl; [reflexivity|]. exact IH. Qed.
  Lemma krow_length a b : length (krow K a b) = (length a * length b)%nat.
  Proof. induction a as [|x a IH]; simpl; [reflexivity|]. now rewrite app_length, vscale_length, IH. Qed.
  Lemma krow_vadd_r a : forall u v, length u = length v ->
    krow K a (vadd K u v) = vadd K (krow K a u) (krow K a v).
  Proof.
    induction a as [|x a IH]; intros u v H; simpl; [reflexivity|].
    rewrite vscale_vadd, IH, vadd_app by (rewrite ?vscale_length; assumption). reflexivity.
  Qed.
  Lemma krow_vadd_l u : forall v w, length u = length v ->
    krow K (vadd K u v) w = vadd K (krow K u w) (krow K v w).
  Proof.
    induction u as [|x u IH]; intros [|y v] w H; simpl in *; try lia; [reflexivity|].
    rewrite vscale_add, IH, vadd_app by (rewrite ?vscale_length; lia). reflexivity.
  Qed.
  Lemma krow_vscale_r c a b : krow K a (vscale K c b) = vscale K c (krow K a b).
  Proof.
    induction a as [|x a IH]; simpl; [reflexivity|].
    now rewrite vscale_app, IH, !vscale_vscale, (mul_comm x c).
  Qed.

  Lemma rowmul_map_krow d rc rb : forall D, length rb = length D ->
    Forall (fun row => length row = d) D ->
    rowmul K rb (map (fun r => krow K rc r) D) = krow K rc (rowmul K rb D).
  Proof.
    induction rb as [|y rb IH]; intros [|dd D] H HD; simpl in *; try lia.
    - now rewrite krow_nil_r.
    - inversion HD as [|? ? Hd HD']; subst. rewrite IH by (assumption || lia).
      destruct D as [|d2 D].
      + rewrite rowmul_nil_r, krow_nil_r, !vadd_nil_r. symmetry. apply krow_vscale_r.
      + rewrite krow_vadd_r, krow_vscale_r; [reflexivity|].
        rewrite vscale_length. symmetry. apply rowmul_length; [simpl in *; lia|discriminate|assumption].
  Qed.

  Lemma mixed_row c d rb D : length rb = length D -> Forall (fun row => length row = d) D ->
    forall ra C, length ra = length C -> Forall (fun row => length row = c) C ->
    rowmul K (krow K ra rb) (kron K C D) = krow K (rowmul K ra C) (rowmul K rb D).
  Proof.
    intros Hb HD. induction ra as [|x ra IH]; intros [|rc C] H HC; simpl in *; try lia; [reflexivity|].
    inversion HC as [|? ? Hc HC']; subst.
    change (kron K (rc :: C) D) with (map (fun r => krow K rc r) D ++ kron K C D).
    rewrite rowmul_app by (now rewrite vscale_length, map_length).
    rewrite rowmul_vscale_l, (rowmul_map_krow d), IH by (assumption || lia).
    destruct C as [|c2 C].
    - rewrite rowmul_nil_r. cbn [krow]. rewrite !vadd_nil_r. symmetry. apply krow_vscale.
    - rewrite krow_vadd_l, krow_vscale; [reflexivity|].
      rewrite vscale_length. symmetry. apply rowmul_length; [simpl in *; lia|discriminate|assumption].
  Qed.

  Theorem kron_mixed c d A B C D :
    Forall (fun r => length r = length C) A -> Forall (fun row => length row = c) C ->
    Forall (fun r => length r = length D) B -> Forall (fun row => length row = d) D ->
    mmul K (kron K A B) (kron K C D) = kron K (mmul K A C) (mmul K B D).
  Proof.
    intros HA HC HB HD. induction A as [|ra A IH]; [reflexivity|].
    inversion HA as [|? ? Hra HA']; subst.
    change (kron K (ra :: A) B) with (map (fun r => krow K ra r) B ++ kron K A B).
    change (mmul K (ra :: A) C) with (rowmul K ra C :: mmul K A C).
    change (kron K (rowmul K ra C :: mmul K A C) (mmul K B D))
      with (map (fun r => krow K (rowmul K ra C) r) (mmul K B D) ++ kron K (mmul K A C) (mmul K B D)).
    unfold mmul at 1. rewrite map_app. fold (mmul K (kron K A B) (kron K C D)). rewrite IH by assumption.
    f_equal. unfold mmul. rewrite !map_map. apply map_ext_in. intros rb Hrb.
    eapply Forall_forall in HB; [|exact Hrb]. now apply (mixed_row c d).
  Qed.

  Lemma kron_wf a b p q A B : wfm a b A -> wfm p q B -> wfm (a * p) (b * q) (kron K A B).
  Proof.
    intros [LA FA] [LB FB]. split.
    - subst a. clear FA. induction A as [|ra A IH]; [reflexivity|].
      change (kron K (ra :: A) B) with (map (fun r => krow K ra r) B ++ kron K A B).
      rewrite app_length, map_length. cbn [length]. unfold mat, vec in *. lia.
    - apply Forall_forall. intros r Hr. unfold kron in Hr. apply in_flat_map in Hr as (ra & Hra & Hr).
      apply in_map_iff in Hr as (rb & <- & Hrb). rewrite krow_length.
      eapply Forall_forall in FA; [|exact Hra]. eapply Forall_forall in FB; [|exact Hrb]. now rewrite FA, FB.
  Qed.
  Lemma mkfrom_wf n : forall i g, (forall j, wfm 2 2 (g j)) -> wfm (2 ^ n) (2 ^ n) (mkfrom K i n g).
  Proof.
    induction n as [|n IH]; intros i g Hg; cbn [mkfrom].
    - split; [reflexivity|]. repeat constructor.
    - rewrite Nat.pow_succ_r'. apply kron_wf; [apply Hg|now apply IH].
  Qed.
  Theorem mkfrom_mmul n : forall i g h, (forall j, wfm 2 2 (g j)) -> (forall j, wfm 2 2 (h j)) ->
    mmul K (mkfrom K i n g) (mkfrom K i n h) = mkfrom K i n (fun j => mmul K (g j) (h j)).
  Proof.
    induction n as [|n IH]; intros i g h Hg Hh; cbn [mkfrom].
    - cbn. now rewrite mul_1_l.
    - destruct (Hg i) as [Lg Fg]. destruct (Hh i) as [Lh Fh].
      destruct (mkfrom_wf n (S i) g Hg) as [L1 F1]. destruct (mkfrom_wf n (S i) h Hh) as [L2 F2].
      rewrite (kron_mixed 2 (2 ^ n)); try assumption.
      + now rewrite IH.
      + now rewrite Lh.
      + now rewrite L2.
  Qed.

  (* ---------------- entries of Kronecker products; embed of a Kronecker product *)
  Lemma idx_acc_spec b : forall a, idx_acc a b = (a * 2 ^ length b + idx_acc 0%nat b)%nat.
  Proof.
    induction b as [|x b IH]; intros a; cbn [idx_acc length]; [rewrite Nat.pow_0_r; lia|].
    rewrite IH, (IH (2 * 0 + _)%nat), Nat.pow_succ_r'. lia.
  Qed.
  Lemma idx_lt b : (idx b < 2 ^ length b)%nat.
  Proof.
    unfold idx. induction b as [|x b IH]; cbn [idx_acc length]; [cbn; lia|].
    rewrite idx_acc_spec, Nat.pow_succ_r'. destruct x; lia.
  Qed.
  Lemma idx_cons x b : idx (x :: b) = ((if x then 2 ^ length b else 0%nat) + idx b)%nat.
  Proof. unfold idx. cbn [idx_acc]. rewrite idx_acc_spec. destruct x; lia. Qed.

  Lemma nth_vscale c r j : nth j (vscale K c r) 0 = c * nth j r 0.
  Proof.
    unfold vscale. rewrite <- (mul_0_r c) at 1. apply map_nth.
  Qed.
  Lemma mget_mscale c M i j : mget K (mscale K c M) i j = c * mget K M i j.
  Proof.
    unfold mget, mscale. change (@nil T) with (vscale K c []). rewrite map_nth. apply nth_vscale.
  Qed.
  Lemma wf_nth_length a b M i : wfm a b M -> (i < a)%nat -> length (nth i M []) = b.
  Proof.
    intros [L F] Hi. eapply Forall_forall in F; [exact F|]. apply nth_In. lia.
  Qed.

  Definition sel22 (a b c d : T) (x y : bool) : T :=
    match x, y with false, false => a | false, true => b | true, false => c | true, true => d end.

  Lemma mget_kron22 a b c d M k i j (x y : bool) :
    wfm (2 ^ k) (2 ^ k) M -> (i < 2 ^ k)%nat -> (j < 2 ^ k)%nat ->
    mget K (kron K [[a; b]; [c; d]] M) ((if x then 2 ^ k else 0%nat) + i) ((if y then 2 ^ k else 0%nat) + j)
    = sel22 a b c d x y * mget K M i j.
  Proof.
    intros HM Hi Hj. pose proof (wf_nth_length _ _ M i HM Hi) as Lr. destruct HM as [LM FM].
    unfold kron. cbn [flat_map]. rewrite app_nil_r. unfold mget. unfold mat, vec in *.
    assert (R : forall ra : list T, nth i (map (fun rb : list T => krow K ra rb) M) (@nil T) = krow K ra (nth i M (@nil T))).
    { intros ra. rewrite <- (krow_nil_r ra) at 1. apply (map_nth (fun rb => krow K ra rb)). }
    assert (C : forall u v (r : list T), length r = (2 ^ k)%nat ->
               nth ((if y then 2 ^ k else 0%nat) + j) (krow K [u; v] r) 0 = (if y then v else u) * nth j r 0).
    { intros u v r Hr. cbn [krow]. rewrite app_nil_r. destruct y.
      - rewrite app_nth2 by (rewrite vscale_length; lia). rewrite vscale_length.
        replace (2 ^ k + j - length r)%nat with j by lia. apply nth_vscale.
      - rewrite app_nth1 by (rewrite vscale_length; lia). apply nth_vscale. }
    assert (LA : forall ra : list T, length (map (fun rb : list T => krow K ra rb) M) = (2 ^ k)%nat)
      by (intros; rewrite map_length; exact LM).
    destruct x.
    - etransitivity; [apply f_equal2; [|reflexivity]; apply app_nth2; rewrite map_length; unfold mat, vec in *; lia|].
      rewrite map_length. replace (2 ^ k + i - length M)%nat with i by (unfold mat, vec in *; lia).
      etransitivity; [apply f_equal2; [|reflexivity]; apply (R [c; d])|].
      rewrite C by exact Lr. now destruct y.
    - cbn [Nat.add].
      etransitivity; [apply f_equal2; [|reflexivity]; apply app_nth1; rewrite map_length; unfold mat, vec in *; lia|].
      etransitivity; [apply f_equal2; [|reflexivity]; apply (R [a; b])|].
      rewrite C by exact Lr. now destruct y.
  Qed.

  Lemma existsb_shift0 i qs : existsb (Nat.eqb (S i)) (0%nat :: map S qs) = existsb (Nat.eqb i) qs.
  Proof. cbn [existsb Nat.eqb orb]. apply existsb_shift. Qed.
  Lemma agree_off_from_shift0 qs r : forall i c,
    agree_off_from (S i) (0%nat :: map S qs) r c = agree_off_from i qs r c.
  Proof.
    induction r as [|x r IH]; intros i [|y c]; cbn [agree_off_from]; try reflexivity.
    now rewrite existsb_shift0, IH.
  Qed.
  Lemma sel_length qs r : length (sel qs r) = length qs.
  Proof. apply map_length. Qed.

  Lemma sel_cons0 qs x r : sel (0%nat :: map S qs) (x :: r) = x :: sel qs r.
  Proof. unfold sel. cbn [map nth]. f_equal. rewrite map_map. reflexivity. Qed.

  Lemma embed_S_cons n qs a b c d M :
    wfm (2 ^ length qs) (2 ^ length qs) M ->
    embed K (S n) (0%nat :: map S qs) (kron K [[a; b]; [c; d]] M) = kron K [[a; b]; [c; d]] (embed K n qs M).
  Proof.
    intros HM. rewrite !embed_entry. unfold kron at 2. cbn [allbits flat_map]. rewrite app_nil_r, map_app, !map_map.
    assert (E : forall x y r' c',
       entry (0%nat :: map S qs) (kron K [[a; b]; [c; d]] M) (x :: r') (y :: c') = sel22 a b c d x y * entry qs M r' c').
    { intros x y r' c'. unfold entry, agree_off. cbn [agree_off_from existsb Nat.eqb orb andb].
      rewrite agree_off_from_shift0, !sel_cons0.
      destruct (agree_off_from 0 qs r' c'); [|now rewrite mul_0_r].
      rewrite !idx_cons, !sel_length. apply mget_kron22; [exact HM| |];
        (eapply Nat.lt_le_trans; [apply idx_lt|rewrite sel_length; apply Nat.le_refl]). }
    f_equal; apply map_ext; intros r'; rewrite map_app, !map_map; cbn [krow]; rewrite app_nil_r;
      unfold vscale; rewrite !map_map; f_equal; apply map_ext; intros c'; apply E.
  Qed.

  Lemma embed_mscale n qs c M : embed K n qs (mscale K c M) = mscale K c (embed K n qs M).
  Proof.
    rewrite !embed_entry. unfold mscale, vscale. rewrite !map_map. apply map_ext. intros r.
    rewrite !map_map. apply map_ext. intros x. unfold entry.
    destruct (agree_off qs r x); [apply mget_mscale|now rewrite mul_0_r].
  Qed.

  Lemma kronr_wf l : Forall (wfm 2 2) l -> wfm (2 ^ length l) (2 ^ length l) (kronr l).
  Proof.
    induction 1 as [|A l HA Hl IH]; cbn [kronr fold_right length].
    - split; [reflexivity|repeat constructor].
    - rewrite Nat.pow_succ_r'. now apply kron_wf.
  Qed.
  Lemma mkfrom_shift n : forall i g, mkfrom K (S i) n g = mkfrom K i n (fun j => g (S j)).
  Proof. induction n as [|n IH]; intros i g; cbn [mkfrom]; [reflexivity|]. now rewrite IH. Qed.

  Fixpoint memb (x : nat) (l : list nat) : bool :=
    match l with [] => false | y :: l' => (x =? y)%nat || memb x l' end.
  Lemma memb_map_S j l : memb (S j) (map S l) = memb j l.
  Proof. induction l as [|y l IH]; cbn [memb map]; [reflexivity|]. now rewrite IH. Qed.
  Lemma memb_0_map_S l : memb 0%nat (map S l) = false.
  Proof. induction l; cbn [memb map]; auto. Qed.
  Lemma map_S_pred l : Forall (fun q => (0 < q)%nat) l -> l = map S (map pred l).
  Proof. induction 1 as [|q l Hq Hl IH]; cbn [map]; [reflexivity|]. rewrite <- IH. f_equal. lia. Qed.

  Lemma sorted_map_pred l : Forall (fun q => (0 < q)%nat) l -> StronglySorted lt l ->
    StronglySorted lt (map pred l).
  Proof.
    intros Hl Hs. induction Hs as [|x l Hsl IHs Hx]; cbn [map]; constructor.
    - inversion Hl; subst. now apply IHs.
    - inversion Hl as [|? ? Hx0 Hl']; subst. apply Forall_forall. intros y Hy.
      apply in_map_iff in Hy as (z & <- & Hz).
      rewrite Forall_forall in Hx, Hl'. specialize (Hx z Hz). specialize (Hl' z Hz). lia.
  Qed.

  (* a Kronecker product of 2x2 matrices placed on an ascending list of qubits *)
  Theorem embed_spread n : forall qs g,
    StronglySorted lt qs -> Forall (fun q => (q < n)%nat) qs -> (forall j, wfm 2 2 (g j)) ->
    embed K n qs (kronr (map g qs)) = mk K n (fun j => if memb j qs then g j else I2 K).
  Proof.
    induction n as [|n IH]; intros qs g Hs Hb Hg.
    - destruct qs as [|q qs]; [|inversion Hb; lia]. cbn. now rewrite mul_1_r || reflexivity.
    - assert (Hpos : forall l, Forall (fun q => (0 < q)%nat) l ->
                StronglySorted lt l -> Forall (fun q => (q < S n)%nat) l ->
                embed K (S n) l (kronr (map g l)) =
                kron K (I2 K) (mk K n (fun j => if memb j (map pred l) then g (S j) else I2 K))).
      { intros l Hl Hsl Hbl. rewrite (map_S_pred l Hl) at 1 2. rewrite (map_map S g), embed_S_shift. f_equal.
        apply (IH (map pred l) (fun q => g (S q))).
        - now apply sorted_map_pred.
        - apply Forall_forall. intros y Hy. apply in_map_iff in Hy as (z & <- & Hz).
          rewrite Forall_forall in Hbl, Hl. specialize (Hbl z Hz). specialize (Hl z Hz). lia.
        - intros j. apply Hg. }
      destruct qs as [|[|q] rest].
      + rewrite Hpos by constructor. unfold mk. cbn [mkfrom memb map]. f_equal.
        rewrite mkfrom_shift. reflexivity.
      + inversion Hs as [|? ? Hs' Hx]; subst. inversion Hb as [|? ? _ Hb']; subst.
        assert (Hl : Forall (fun q => (0 < q)%nat) rest) by exact Hx.
        cbn [map kronr fold_right]. fold (kronr (map g rest)).
        destruct (Hg 0%nat) as [L0 F0].
        destruct (g 0%nat) as [|[|a [|b [|? ?]]] [|[|c [|d [|? ?]]] [|? ?]]] eqn:G0; cbn in L0; try lia;
          try (exfalso; inversion F0 as [|? ? E1 F1]; try inversion F1 as [|? ? E2 F2]; cbn in *; lia).
        rewrite (map_S_pred rest Hl) at 1 2. rewrite (map_map S g).
        rewrite embed_S_cons.
        * unfold mk. cbn [mkfrom memb Nat.eqb orb]. rewrite G0. f_equal.
          rewrite mkfrom_shift.
          rewrite (IH (map pred rest) (fun q => g (S q))).
          -- unfold mk. apply mkfrom_ext. intros j _. cbn [memb Nat.eqb orb].
             assert (Mj : memb (S j) rest = memb j (map pred rest))
               by (rewrite (map_S_pred _ Hl) at 1; apply memb_map_S).
             now rewrite Mj.
          -- now apply sorted_map_pred.
          -- apply Forall_forall. intros y Hy. apply in_map_iff in Hy as (z & <- & Hz).
             rewrite Forall_forall in Hb', Hl. specialize (Hb' z Hz). specialize (Hl z Hz). lia.
          -- intros j. apply Hg.
        * rewrite <- (map_length (fun q => g (S q)) (map pred rest)). apply kronr_wf.
          apply Forall_forall. intros A HA. apply in_map_iff in HA as (z & <- & _). apply Hg.
      + assert (Hl : Forall (fun q => (0 < q)%nat) (S q :: rest)).
        { inversion Hs as [|? ? _ Hx]; subst. constructor; [lia|].
          apply Forall_forall. intros y Hy. rewrite Forall_forall in Hx. specialize (Hx y Hy). lia. }
        rewrite Hpos by assumption. unfold mk. cbn [mkfrom]. rewrite mkfrom_shift.
        assert (M0 : memb 0%nat (S q :: rest) = false) by (rewrite (map_S_pred _ Hl); apply memb_0_map_S).
        assert (Mj : forall j, memb (S j) (S q :: rest) = memb j (map pred (S q :: rest)))
          by (intros j; rewrite (map_S_pred _ Hl) at 1; apply memb_map_S).
        rewrite M0. f_equal. apply mkfrom_ext. intros j _. now rewrite Mj.
  Qed.
End Alg.
