(* C15/Proofs5.v : the model builders of hamiltonians/models.py equal their formulas, for every n *)
From Coq Require Import ZArith List Bool Arith Lia Permutation.
From QV Require Import Base.Mat Base.Zi C15.MatDefs C15.Model C15.MatAlg C15.Proofs C15.Proofs2 C15.Proofs3.
Import ListNotations.

Lemma msum_fold l h : fold_left (madd ZK) l h = msum ZK (h :: l).
Proof. reflexivity. Qed.

Lemma denote_fsum n l : l <> [] -> denote n (fsum l) = msum ZK (map (denote n) l).
Proof.
  destruct l as [|h t]; [congruence|]. intros _. unfold fsum. cbn [map].
  rewrite <- msum_fold. revert h. induction t as [|x t IH]; intros h; cbn [fold_left map]; [reflexivity|].
  now rewrite IH.
Qed.

Lemma denote_fneg n f : denote n (fneg f) = mneg (denote n f).
Proof.
  unfold fneg, mneg. cbn [denote]. now rewrite (mscale_mmul_l ZK ZL), (idl n (2 ^ n)) by apply denote_wf.
Qed.
Lemma denote_scale n c f : denote n (FMul (FNum c) f) = mscale ZK c (denote n f).
Proof. cbn [denote]. now rewrite (mscale_mmul_l ZK ZL), (idl n (2 ^ n)) by apply denote_wf. Qed.

Lemma seq_nonnil n : 0 < n -> forall {X} (f : nat -> X), map f (seq 0 n) <> [].
Proof. intros H X f. destruct n; [lia|]. discriminate. Qed.

Lemma seq_ne n : 0 < n -> seq 0 n <> [].
Proof. destruct n; [lia|discriminate]. Qed.

(* one factor placed by a condition on the position = embedded matrix *)
Lemma multikron_cond n (g : nat -> mat Zi) : 0 < n ->
  multikron ZK (map g (seq 0 n)) = mk ZK n g.
Proof.
  intros H. rewrite (multikron_kronr ZK ZL) by now apply seq_nonnil.
  unfold mk. now rewrite (mkfrom_kronr ZK).
Qed.

Lemma spin_one n p i : i < n ->
  multikron ZK (map (fun j => if cond_one n i j then pmat p else I2 ZK) (seq 0 n)) = sym_op n (p, i).
Proof.
  intros H. rewrite multikron_cond by lia. rewrite sym_op_mk by assumption. apply mk_ext.
  intros j Hj. unfold cond_one, delta. rewrite Nat.mod_small by assumption. now rewrite Nat.eqb_sym.
Qed.

Theorem onebody_ok n p : 0 < n -> onebody_dense n p = denote n (onebody_form n p).
Proof.
  intros H. unfold onebody_dense, onebody_form, build_spin. rewrite denote_fneg. f_equal.
  rewrite denote_fsum by now apply seq_nonnil. rewrite map_map. f_equal.
  apply map_ext_in. intros i Hi. apply in_seq in Hi. now apply spin_one.
Qed.

(* ---- TFIM ---- *)
Definition prev (n i : nat) : nat := (i + n - 1) mod n.
Definition next (n k : nat) : nat := (k + 1) mod n.

Lemma prev_lt n i : 0 < n -> prev n i < n. Proof. intros. apply Nat.mod_upper_bound. lia. Qed.
Lemma next_prev n i : 1 < n -> i < n -> next n (prev n i) = i.
Proof.
  intros Hn Hi. unfold next, prev. rewrite Nat.add_mod_idemp_l by lia.
  replace (i + n - 1 + 1) with (i + 1 * n) by lia. rewrite Nat.mod_add by lia. now apply Nat.mod_small.
Qed.
Lemma prev_neq n i : 1 < n -> i < n -> prev n i <> i.
Proof.
  intros Hn Hi. unfold prev. destruct i as [|i].
  - rewrite Nat.mod_small by lia. lia.
  - replace (S i + n - 1) with (i + 1 * n) by lia. rewrite Nat.mod_add, Nat.mod_small by lia. lia.
Qed.
Lemma cond_pair_spec n i j : 1 < n -> i < n -> j < n ->
  cond_pair n i j = (j =? prev n i) || (j =? i).
Proof.
  intros Hn Hi Hj. unfold cond_pair. rewrite (Nat.mod_small j) by assumption.
  rewrite (Nat.eqb_sym i j), orb_comm. f_equal.
  destruct (Nat.eqb_spec i ((j + 1) mod n)) as [E|E]; destruct (Nat.eqb_spec j (prev n i)) as [F|F]; try reflexivity; exfalso.
  - apply F. subst i. unfold prev. destruct (Nat.eq_dec (j + 1) n) as [G|G].
    + rewrite G, Nat.mod_same by lia. replace (0 + n - 1) with j by lia. symmetry. now apply Nat.mod_small.
    + rewrite (Nat.mod_small (j + 1)) by lia. replace (j + 1 + n - 1) with (j + 1 * n) by lia.
      rewrite Nat.mod_add by lia. symmetry. now apply Nat.mod_small.
  - apply E. subst j. symmetry. now apply next_prev.
Qed.

Lemma pmat_I2_l p : mmul ZK (I2 ZK) (pmat p) = pmat p. Proof. apply I2_mmul, pmat_wf. Qed.
Lemma pmat_I2_r p : mmul ZK (pmat p) (I2 ZK) = pmat p. Proof. apply mmul_I2, pmat_wf. Qed.

Lemma spin_pair n i : 1 < n -> i < n ->
  multikron ZK (map (fun j => if cond_pair n i j then pmat PZ else I2 ZK) (seq 0 n)) =
  mmul ZK (sym_op n (PZ, prev n i)) (sym_op n (PZ, i)).
Proof.
  intros Hn Hi. rewrite multikron_cond by lia.
  rewrite !sym_op_mk by (try apply prev_lt; lia).
  rewrite mk_mmul by (intros; apply delta_wf, pmat_wf). apply mk_ext. intros j Hj.
  rewrite cond_pair_spec by assumption. unfold delta.
  pose proof (prev_neq n i Hn Hi).
  destruct (Nat.eqb_spec j (prev n i)); destruct (Nat.eqb_spec j i); cbn [orb]; try lia.
  - now rewrite pmat_I2_r.
  - now rewrite pmat_I2_l.
  - symmetry. apply I2_mmul, I2_wf.
Qed.

Lemma msum_perm l l' : Permutation l l' -> msum ZK l = msum ZK l'.
Proof.
  induction 1 as [|x l l' _ IH|x y l|l l' l'' _ IH1 _ IH2]; [reflexivity| | |congruence].
  - now rewrite !(msum_cons ZK ZL), IH.
  - rewrite !(msum_cons ZK ZL), !(madd_assoc ZK ZL). f_equal. apply (madd_comm ZK ZL).
Qed.
Lemma msum_madd {X} (F G : X -> mat Zi) l :
  msum ZK (map (fun x => madd ZK (F x) (G x)) l) = madd ZK (msum ZK (map F l)) (msum ZK (map G l)).
Proof.
  induction l as [|x l IH]; [reflexivity|]. cbn [map]. rewrite !(msum_cons ZK ZL), IH.
  apply (madd_swap ZK ZL).
Qed.

Lemma rotate_perm n : 0 < n -> Permutation (map (prev n) (seq 0 n)) (seq 0 n).
Proof.
  intros H. destruct n as [|m]; [lia|].
  assert (E : map (prev (S m)) (seq 0 (S m)) = m :: seq 0 m).
  { cbn [seq map]. f_equal.
    - unfold prev. replace (0 + S m - 1) with m by lia. apply Nat.mod_small. lia.
    - rewrite <- seq_shift, map_map. transitivity (map (fun x : nat => x) (seq 0 m)); [|apply map_id].
      apply map_ext_in. intros i Hi. apply in_seq in Hi. unfold prev.
      replace (S i + S m - 1) with (i + 1 * S m) by lia. rewrite Nat.mod_add by lia. apply Nat.mod_small. lia. }
  rewrite E, seq_S. cbn [Nat.add]. apply Permutation_cons_append.
Qed.

Definition zz_bond n k : mat Zi := mmul ZK (sym_op n (PZ, k)) (sym_op n (PZ, next n k)).

Lemma build_pair_ok n : 1 < n ->
  build_spin n (pmat PZ) (cond_pair n) = msum ZK (map (zz_bond n) (seq 0 n)).
Proof.
  intros Hn. unfold build_spin.
  transitivity (msum ZK (map (zz_bond n) (map (prev n) (seq 0 n)))).
  - rewrite map_map. f_equal. apply map_ext_in. intros i Hi. apply in_seq in Hi.
    rewrite spin_pair by lia. unfold zz_bond. now rewrite next_prev by lia.
  - apply msum_perm, Permutation_map, rotate_perm. lia.
Qed.
Lemma build_one_ok n p : 0 < n ->
  build_spin n (pmat p) (cond_one n) = msum ZK (map (fun k => sym_op n (p, k)) (seq 0 n)).
Proof.
  intros H. unfold build_spin. f_equal. apply map_ext_in. intros i Hi. apply in_seq in Hi. now apply spin_one.
Qed.

Lemma msum_wf2 n {X} (F : X -> mat Zi) l : l <> [] -> (forall x, wfm (2 ^ n) (2 ^ n) (F x)) ->
  wfm (2 ^ n) (2 ^ n) (msum ZK (map F l)).
Proof.
  intros Hne HF. apply msum_wf; [destruct l; [congruence|discriminate]|].
  apply Forall_forall. intros A HA. apply in_map_iff in HA as (x & <- & _). apply HF.
Qed.

Theorem tfim_ok n h : 1 < n -> tfim_dense n h = denote n (tfim_form n h).
Proof.
  intros Hn. unfold tfim_dense, tfim_form. rewrite denote_fneg, denote_fsum by (apply seq_nonnil; lia).
  rewrite map_map.
  assert (E : forall k, denote n (FAdd (FMul (FSym PZ k) (FSym PZ ((k + 1) mod n))) (FMul (FNum (zc h)) (FSym PX k)))
              = madd ZK (zz_bond n k) (mscale ZK (zc h) (sym_op n (PX, k)))).
  { intros k. cbn [denote]. unfold zz_bond, sym_op, next. cbn [fst snd].
    now rewrite (mscale_mmul_l ZK ZL), (idl n (2 ^ n)) by apply embed_wf. }
  rewrite (map_ext _ _ E), msum_madd, build_pair_ok by assumption.
  assert (W1 : wfm (2 ^ n) (2 ^ n) (msum ZK (map (zz_bond n) (seq 0 n)))).
  { apply msum_wf2; [apply seq_ne; lia|]. intros k. unfold zz_bond.
    apply (mmul_wf ZK _ (2 ^ n)); try apply sym_op_wf. apply pow2_ne0. }
  assert (W2 : wfm (2 ^ n) (2 ^ n) (msum ZK (map (fun k => sym_op n (PX, k)) (seq 0 n)))).
  { apply msum_wf2; [apply seq_ne; lia|]. intros k. apply sym_op_wf. }
  rewrite <- (map_map (fun k => sym_op n (PX, k)) (mscale ZK (zc h))), <- (mscale_msum ZK ZL).
  destruct (Z.eqb_spec h 0) as [->|Hh].
  - unfold mneg. f_equal. symmetry. apply (madd_zeros_r_gen (2 ^ n) (2 ^ n)); assumption.
  - rewrite build_one_ok by lia. unfold msub, mneg. now rewrite (mscale_madd ZK ZL).
Qed.

(* ---- MaxCut (symbolic builder; dense = its dense form): the form is the documented sum ---- *)
Definition maxcut2_spec (n : nat) (adj : list (list Z)) : mat Zi :=
  mneg (msum ZK (flat_map (fun i => map (fun j =>
     mscale ZK (zc (nth j (nth i adj []) 0%Z))
       (madd ZK (midentity ZK n) (mneg (mmul ZK (sym_op n (PZ, i)) (sym_op n (PZ, j)))))) (seq 0 n)) (seq 0 n))).

Theorem maxcut_ok n adj : 0 < n -> denote n (maxcut2_form n adj) = maxcut2_spec n adj.
Proof.
  intros H. unfold maxcut2_form, maxcut2_spec. rewrite denote_fneg. f_equal.
  rewrite denote_fsum.
  - f_equal. rewrite !flat_map_concat_map, concat_map, map_map. f_equal. apply map_ext. intros i.
    rewrite map_map. apply map_ext. intros j. rewrite denote_scale. f_equal.
    cbn [denote]. rewrite denote_fneg. cbn [denote]. unfold sym_op. cbn [fst snd].
    now rewrite (mscale_1 ZK ZL).
  - destruct n; [lia|]. cbn. discriminate.
Qed.
