(* C15/Proofs7.v : SymbolicHamiltonian.expectation_from_samples (every Z factor counts) equals the
   frequency-weighted diagonal entries of [[form]] *)
From Coq Require Import ZArith List Bool Arith Lia.
From QV Require Import Base.Mat Base.Zi C15.MatDefs C15.Model C15.MatAlg C15.Proofs C15.Proofs2 C15.Proofs6.
Import ListNotations.

(* ---------------- entries are additive *)
Lemma zi_add_0_r x : zi_add x zi0 = x.
Proof. now rewrite zi_add_comm, zi_add_0_l. Qed.
Lemma nth_vadd j : forall a b, nth j (vadd ZK a b) zi0 = zi_add (nth j a zi0) (nth j b zi0).
Proof.
  induction j as [|j IH]; intros [|x a] [|y b]; cbn [vadd nth]; try reflexivity;
    try (now rewrite zi_add_0_l); try (now rewrite zi_add_0_r). apply IH.
Qed.
Lemma nth_madd i : forall A B, nth i (madd ZK A B) [] = vadd ZK (nth i A []) (nth i B []).
Proof.
  induction i as [|i IH]; intros [|a A] [|b B]; cbn [madd nth vadd]; try reflexivity;
    try (now destruct (nth i B [])); try (now rewrite (vadd_nil_r ZK)). apply IH.
Qed.
Lemma mget_madd A B i j : mget ZK (madd ZK A B) i j = zi_add (mget ZK A i j) (mget ZK B i j).
Proof. unfold mget. cbn [zero Ziops]. now rewrite nth_madd, nth_vadd. Qed.
Definition zisum (l : list Zi) : Zi := fold_right zi_add zi0 l.
Lemma mget_msum l i j : mget ZK (msum ZK l) i j = zisum (map (fun A => mget ZK A i j) l).
Proof.
  induction l as [|A l IH]; [unfold mget; cbn; now destruct i, j|].
  rewrite (msum_cons ZK ZL), mget_madd, IH. reflexivity.
Qed.

(* ---------------- allbits enumerates by idx *)
Lemma nth_allbits n : forall x, length x = n -> nth (idx x) (allbits n) [] = x.
Proof.
  induction n as [|n IH]; intros x H; [destruct x; [reflexivity|discriminate]|].
  destruct x as [|b x]; [discriminate|]. cbn [length] in H. injection H as H.
  rewrite idx_cons, H. cbn [allbits]. pose proof (idx_lt x) as L. rewrite H in L.
  destruct b.
  - rewrite app_nth2 by (rewrite map_length, (allbits_length); lia).
    rewrite map_length, allbits_length. replace (2 ^ n + idx x - 2 ^ n) with (idx x) by lia.
    change (@nil bool) with (@nil bool) at 1.
    rewrite (nth_indep _ [] (true :: [])) by (rewrite map_length, allbits_length; lia).
    rewrite (map_nth (cons true)). f_equal. now apply IH.
  - cbn [Nat.add]. rewrite app_nth1 by (rewrite map_length, allbits_length; lia).
    rewrite (nth_indep _ [] (false :: [])) by (rewrite map_length, allbits_length; lia).
    rewrite (map_nth (cons false)). f_equal. now apply IH.
Qed.

Lemma beqb_refl r : beqb r r = true.
Proof. induction r as [|x r IH]; cbn; [reflexivity|]. now rewrite IH, Bool.eqb_reflx. Qed.
Lemma beqb_eq r : forall c, beqb r c = true -> r = c.
Proof.
  induction r as [|x r IH]; intros [|y c] H; cbn in H; try discriminate; [reflexivity|].
  apply andb_true_iff in H as [H1 H2]. apply Bool.eqb_prop in H1. subst. f_equal. now apply IH.
Qed.

(* ---------------- an embedded Z is the identity with signed rows *)
Definition dz (q : nat) (r : list bool) : Zi := if nth q r false then zim1 else zi1.
Definition irow (n : nat) (r : list bool) : vec Zi := map (fun c => if beqb r c then zi1 else zi0) (allbits n).

Lemma agree_after q r : forall i c, q < i -> agree_off_from i [q] r c = beqb r c.
Proof.
  induction r as [|x r IH]; intros i [|y c] H; cbn [agree_off_from beqb existsb orb]; try reflexivity.
  destruct (Nat.eqb_spec i q); [lia|]. cbn [orb]. rewrite IH by lia. reflexivity.
Qed.
Lemma agree_single q r : forall i c, i <= q -> agree_off_from i [q] r c = true ->
  nth (q - i) r false = nth (q - i) c false -> beqb r c = true.
Proof.
  induction r as [|x r IH]; intros i [|y c] Hi A E; cbn [agree_off_from beqb existsb orb] in *; try discriminate; [reflexivity|].
  apply andb_true_iff in A as [A1 A2]. destruct (Nat.eqb_spec i q) as [->|N].
  - rewrite Nat.sub_diag in E. cbn in E. subst. rewrite Bool.eqb_reflx. cbn [andb].
    now rewrite agree_after in A2 by lia.
  - cbn [orb] in A1. rewrite A1. cbn [andb]. apply (IH (S i)); [lia|exact A2|].
    replace (q - i) with (S (q - S i)) in E by lia. exact E.
Qed.
Lemma agree_beqb qs r : forall i c, beqb r c = true -> agree_off_from i qs r c = true.
Proof.
  induction r as [|x r IH]; intros i [|y c] H; cbn [agree_off_from beqb] in *; try discriminate; [reflexivity|].
  apply andb_true_iff in H as [H1 H2]. rewrite H1, IH by assumption. now destruct (existsb _ qs).
Qed.

Lemma symZ_rows n q : sym_op n (PZ, q) = map (fun r => vscale ZK (dz q r) (irow n r)) (allbits n).
Proof.
  unfold sym_op. cbn [fst snd]. rewrite (embed_entry ZK). apply map_ext. intros r. unfold irow, vscale.
  rewrite map_map. apply map_ext. intros c. unfold entry, agree_off.
  destruct (beqb r c) eqn:B.
  - rewrite agree_beqb by assumption. apply beqb_eq in B. subst c. unfold sel, dz. cbn [map].
    destruct (nth q r false); vm_compute; reflexivity.
  - destruct (agree_off_from 0 [q] r c) eqn:A.
    + unfold sel, dz. cbn [map]. destruct (nth q r false) eqn:E1, (nth q c false) eqn:E2; try (vm_compute; reflexivity);
        exfalso; rewrite (agree_single q r 0 c) in B; try discriminate; try lia; try assumption;
        rewrite Nat.sub_0_r; congruence.
    + unfold dz. destruct (nth q r false); vm_compute; reflexivity.
Qed.

Lemma identity_rows n : midentity ZK n = map (irow n) (allbits n).
Proof. reflexivity. Qed.

Lemma row_of_mmul_id n c D x : wfm (2 ^ n) c D -> length x = n -> rowmul ZK (irow n x) D = nth (idx x) D [].
Proof.
  intros HD Hx. pose proof (mmul_id_l ZK ZL n c D HD) as E. rewrite identity_rows in E. unfold mmul in E.
  rewrite map_map in E. rewrite <- E at 2.
  rewrite (nth_indep _ [] (rowmul ZK (irow n []) D)).
  - rewrite (map_nth (fun r => rowmul ZK (irow n r) D)). now rewrite nth_allbits.
  - rewrite map_length, allbits_length. rewrite <- Hx. apply idx_lt.
Qed.

Lemma diag_symZ n c q D x j : wfm (2 ^ n) c D -> length x = n ->
  mget ZK (mmul ZK (sym_op n (PZ, q)) D) (idx x) j = zi_mul (dz q x) (mget ZK D (idx x) j).
Proof.
  intros HD Hx. rewrite symZ_rows. unfold mmul. rewrite map_map. unfold mget.
  rewrite (nth_indep _ [] (rowmul ZK (vscale ZK (dz q []) (irow n [])) D))
    by (rewrite map_length, allbits_length; rewrite <- Hx; apply idx_lt).
  rewrite (map_nth (fun r => rowmul ZK (vscale ZK (dz q r) (irow n r)) D)), nth_allbits by assumption.
  rewrite (rowmul_vscale_l ZK ZL), (row_of_mmul_id n c) by assumption.
  apply (nth_vscale ZK ZL).
Qed.

Lemma diag_identity n x : length x = n -> mget ZK (midentity ZK n) (idx x) (idx x) = zi1.
Proof.
  intros Hx. rewrite identity_rows. unfold mget.
  rewrite (nth_indep _ [] (irow n [])) by (rewrite map_length, allbits_length; rewrite <- Hx; apply idx_lt).
  rewrite (map_nth (irow n)), nth_allbits by assumption. unfold irow. cbn [zero Ziops].
  rewrite (nth_indep _ zi0 ((fun c => if beqb x c then zi1 else zi0) []))
    by (rewrite map_length, allbits_length; rewrite <- Hx; apply idx_lt).
  rewrite (map_nth (fun c => if beqb x c then zi1 else zi0)), nth_allbits by assumption. now rewrite beqb_refl.
Qed.

Definition allZ (fs : list (pauli * nat)) : bool := forallb (fun f => pauli_eqb (fst f) PZ) fs.
Definition zprod (l : list Zi) : Zi := fold_right zi_mul zi1 l.

Lemma diag_mprod n fs x : allZ fs = true -> length x = n ->
  mget ZK (mprod n (map (sym_op n) fs)) (idx x) (idx x) = zprod (map (fun f => dz (snd f) x) fs).
Proof.
  intros HZ Hx. induction fs as [|[p q] fs IH]; cbn [map mprod fold_right zprod].
  - now apply diag_identity.
  - cbn [allZ forallb fst] in HZ. apply andb_true_iff in HZ as [H1 H2]. destruct p; try discriminate H1. clear H1.
    fold (mprod n (map (sym_op n) fs)). fold (zprod (map (fun f => dz (snd f) x) fs)).
    rewrite (diag_symZ n (2 ^ n)); [|apply mprod_wf, Forall_sym_wf|assumption]. cbn [snd]. now rewrite IH.
Qed.

(* ---------------- signs *)
Definition sg (bits : list bool) : Z := sgn (Nat.odd (count_true bits)).
Lemma sg_cons b bits : sg (b :: bits) = ((if b then -1 else 1) * sg bits)%Z.
Proof.
  unfold sg, count_true. cbn [filter]. destruct b; cbn [length]; [|lia].
  rewrite Nat.odd_succ, <- Nat.negb_odd. destruct (Nat.odd _); reflexivity.
Qed.
Lemma zprod_dz x (fs : list (pauli * nat)) : zprod (map (fun f => dz (snd f) x) fs) = (sg (map (fun q => nth q x false) (map snd fs)), 0%Z).
Proof.
  induction fs as [|[p q] fs IH]; [reflexivity|]. cbn [map zprod fold_right snd].
  fold (zprod (map (fun f => dz (snd f) x) fs)). rewrite IH, sg_cons. unfold dz, zi_mul, zim1, zi1.
  destruct (nth q x false); cbn [fst snd]; f_equal; lia.
Qed.

Lemma term_diag n t x : allZ (t_factors t) = true -> length x = n ->
  fst (mget ZK (term_op n t) (idx x) (idx x)) =
  (fst (t_coef t) * sg (map (fun q => nth q x false) (map snd (t_factors t))))%Z.
Proof.
  intros HZ Hx. unfold term_op, mono_op. cbn [fst snd]. rewrite (mget_mscale ZK ZL), diag_mprod, zprod_dz by assumption.
  cbn [mul Ziops]. unfold zi_mul. cbn [fst snd]. lia.
Qed.

(* ---------------- key bits *)
Lemma key_state_nth n key qmap q b : q < n -> key_bit key qmap q = Some b -> nth q (key_state n key qmap) false = b.
Proof.
  intros Hq E. unfold key_state.
  rewrite (nth_indep _ false ((fun q => match key_bit key qmap q with Some b => b | None => false end) 0))
    by (rewrite map_length, seq_length; lia).
  rewrite (map_nth (fun q => match key_bit key qmap q with Some b => b | None => false end)), seq_nth by lia.
  cbn [Nat.add]. now rewrite E.
Qed.
Lemma key_bits_all n key qmap qs : length key = length qmap ->
  (forall q, In q qs -> In q qmap /\ q < n) ->
  opt_all (map (key_bit key qmap) qs) = Some (map (fun q => nth q (key_state n key qmap) false) qs).
Proof.
  intros Lk H. apply opt_all_some. intros q Hq. destruct (H q Hq) as [Hm Hn].
  destruct (key_bit_total key qmap (length qmap) q Lk eq_refl Hm) as (b & E). rewrite E.
  now rewrite (key_state_nth n key qmap q b).
Qed.

(* ---------------- sums *)
Definition zsum (l : list Z) : Z := fold_right Z.add 0%Z l.
Lemma zsum_add {X} (f g : X -> Z) l : zsum (map (fun x => (f x + g x)%Z) l) = (zsum (map f l) + zsum (map g l))%Z.
Proof. unfold zsum. induction l as [|x l IH]; cbn [map fold_right]; [reflexivity|]. rewrite IH. lia. Qed.
Lemma zsum_scale {X} c (f : X -> Z) l : zsum (map (fun x => (c * f x)%Z) l) = (c * zsum (map f l))%Z.
Proof. unfold zsum. induction l as [|x l IH]; cbn [map fold_right]; [lia|]. rewrite IH. lia. Qed.
Lemma fst_zisum l : fst (zisum l) = zsum (map fst l).
Proof. unfold zisum, zsum. induction l as [|x l IH]; cbn [map fold_right]; [reflexivity|]. unfold zi_add at 1. cbn [fst]. now rewrite IH. Qed.

Definition ts_ok (n : nat) (qmap : list nat) (ts : list sterm) : Prop :=
  forall t, In t ts -> allZ (t_factors t) = true /\ forall q, In q (map snd (t_factors t)) -> In q qmap /\ q < n.

Theorem samples_terms n ts c fr qmap : ts_ok n qmap ts ->
  Forall (fun kc : list bool * Z => length (fst kc) = length qmap) fr ->
  sym_samples (ts, c) fr qmap =
  Some (samples_spec n (terms_prod_matrix n (ts, c)) fr qmap, ftotal fr).
Proof.
  intros Hts Hfr. unfold sym_samples. cbn [fst snd].
  assert (AZ : forallb (fun t => forallb (fun f => pauli_eqb (fst f) PZ) (t_factors t)) ts = true).
  { apply forallb_forall. intros t Ht. apply (Hts t Ht). }
  rewrite AZ. cbn [negb].
  set (a := fun (t : sterm) (kc : list bool * Z) =>
              (fst (t_coef t) * sg (map (fun q => nth q (key_state n (fst kc) qmap) false) (map snd (t_factors t))))%Z).
  rewrite (opt_all_some _ (fun t => zsum (map (fun kc => (a t kc * snd kc)%Z) fr))).
  - cbn [option_map]. f_equal. f_equal. unfold samples_spec, terms_prod_matrix. cbn [fst snd].
    fold (zsum (map (fun t => zsum (map (fun kc => (a t kc * snd kc)%Z) fr)) ts)).
    assert (D : forall kc, In kc fr ->
       fst (mget ZK (madd ZK (msum ZK (map (term_op n) ts)) (mscale ZK c (midentity ZK n)))
              (idx (key_state n (fst kc) qmap)) (idx (key_state n (fst kc) qmap)))
       = (zsum (map (fun t => a t kc) ts) + fst c)%Z).
    { intros kc Hk. set (x := key_state n (fst kc) qmap).
      assert (Lx : length x = n) by (unfold x, key_state; now rewrite map_length, seq_length).
      rewrite mget_madd, mget_msum, (mget_mscale ZK ZL), diag_identity by exact Lx.
      unfold zi_add at 1. cbn [fst]. rewrite fst_zisum, !map_map. f_equal.
      - f_equal. apply map_ext_in. intros t Ht. apply term_diag; [apply (Hts t Ht)|exact Lx].
      - cbn [mul Ziops]. unfold zi_mul, zi1. cbn [fst snd]. lia. }
    fold (zsum (map (fun kc : list bool * Z =>
      (fst (mget ZK (madd ZK (msum ZK (map (term_op n) ts)) (mscale ZK c (midentity ZK n)))
        (idx (key_state n (fst kc) qmap)) (idx (key_state n (fst kc) qmap))) * snd kc)%Z) fr)).
    rewrite (map_ext_in _ (fun kc => ((zsum (map (fun t => a t kc) ts) + fst c) * snd kc)%Z))
      by (intros kc Hk; now rewrite D).
    clear D AZ Hts. unfold ftotal. fold (zsum (map snd fr)).
    induction ts as [|t ts IH]; cbn [map].
    + change (zsum []) with 0%Z. rewrite <- (zsum_scale (fst c) snd). cbn [Z.add]. f_equal.
    + change (zsum (?x :: ?l)) with (x + zsum l)%Z.
      rewrite <- Z.add_assoc, IH, <- zsum_add. f_equal. apply map_ext. intros kc.
      change (zsum (a t kc :: map (fun t0 => a t0 kc) ts)) with (a t kc + zsum (map (fun t0 => a t0 kc) ts))%Z. lia.
  - intros t Ht. destruct (Hts t Ht) as [HZ Hq].
    rewrite (opt_all_some _ (fun kc : list bool * Z => (a t kc * snd kc)%Z)); [reflexivity|].
    intros kc Hk. rewrite Forall_forall in Hfr. rewrite (key_bits_all n) by (auto using Hfr). reflexivity.
Qed.

Theorem samples_symbolic n f ms fr qmap :
  Forall (smono_ok n) ms -> smonos_op n ms = denote n f ->
  ts_ok n qmap (fst (terms_of ms)) ->
  Forall (fun kc : list bool * Z => length (fst kc) = length qmap) fr ->
  sym_samples (terms_of ms) fr qmap = Some (samples_spec n (denote n f) fr qmap, ftotal fr).
Proof.
  intros Hm E Hts Hfr. rewrite <- (terms_prod_ok n f ms Hm E).
  rewrite (surjective_pairing (terms_of ms)) at 1 2. now apply samples_terms.
Qed.
