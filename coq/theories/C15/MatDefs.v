(* C15/MatDefs.v : generic executable matrix definitions used by the C15/C16 models on top of
   Base/Mat.v (no proofs here).  [] stands for the zero vector / zero matrix of any shape, as in
   Base/Mat.vadd. *)
From Coq Require Import List Arith Bool.
From QV Require Import Base.Mat.
Import ListNotations.

Section Defs.
  Context {T : Type} (K : ops T).

  Fixpoint madd (A B : mat T) : mat T :=
    match A, B with
    | [], _ => B
    | _, [] => A
    | a :: A', b :: B' => vadd K a b :: madd A' B'
    end.

  (* python  sum(iterable) = ((0 + m1) + m2) + ...  *)
  Definition msum (l : list (mat T)) : mat T := fold_left madd l [].

  Definition I2 : mat T := [[one K; zero K]; [zero K; one K]].

  (* numpy.linalg.matrix_power for a non-negative exponent (any bracketing gives the same
     matrix in exact arithmetic; proved in MatAlg) *)
  Fixpoint mpow (n : nat) (M : mat T) (k : nat) : mat T :=
    match k with O => midentity K n | S k' => mmul K M (mpow n M k') end.

  (* functools.reduce(f, l) for a non-empty list *)
  Definition reduce1 (f : mat T -> mat T -> mat T) (l : list (mat T)) : mat T :=
    match l with [] => [] | h :: t => fold_left f t h end.

  (* _multikron / reduce(np.kron, l) *)
  Definition multikron (l : list (mat T)) : mat T := reduce1 (kron K) l.
  (* reduce(np.matmul, l) *)
  Definition multimul (l : list (mat T)) : mat T := reduce1 (mmul K) l.

  (* right-nested Kronecker product of g 0, ..., g (n-1) starting at position i;
     the 1x1 identity closes the product *)
  Fixpoint mkfrom (i n : nat) (g : nat -> mat T) : mat T :=
    match n with O => [[one K]] | S n' => kron K (g i) (mkfrom (S i) n' g) end.
  Definition mk (n : nat) (g : nat -> mat T) : mat T := mkfrom 0 n g.

  Definition col (v : vec T) : mat T := map (fun x => [x]) v.
  Definition uncol (M : mat T) : vec T := concat M.

  Definition bigsum (l : list T) : T := fold_right (add K) (zero K) l.
  Definition mtrace (M : mat T) : T := bigsum (map (fun i => mget K M i i) (seq 0 (length M))).
  Definition mdiag (M : mat T) : vec T := map (fun i => mget K M i i) (seq 0 (length M)).
End Defs.
