(* C15/Proofs2.v : products of embedded Pauli matrices as Kronecker products; the term
   extraction and the term-by-term application against the specification *)
From Coq Require Import ZArith List Bool Arith Lia.
From QV Require Import Base.Mat Base.Zi C15.MatDefs C15.Model C15.MatAlg C15.Proofs.
Import ListNotations.

Notation N2 n := (2 ^ n).

(* ------------------------------------------------------------------ 2x2 products per qubit *)
Definition P2 (ps : list pauli) : mat Zi := fold_right (fun p acc => mmul ZK (pmat p) acc) (I2 ZK) ps.
Definition pq (fs : list (pauli * nat)) (i : nat) : list pauli :=
  map fst (filter (fun f => snd f =? i) fs).

Lemma I2_wf : wfm 2 2 (I2 ZK). Proof. split; [reflexivity|repeat constructor]. Qed.
Lemma P2_wf ps : wfm 2 2 (P2 ps).
Proof.
  induction ps as [|p ps IH]; cbn [P2 fold_right]; [apply I2_wf|].
  apply (mmul_wf ZK 2 2 2); [apply pmat_wf|exact IH|lia].
Qed.
Lemma I2_mmul M : wfm 2 2 M -> mmul ZK (I2 ZK) M = M.
Proof. intros H. change (I2 ZK) with (midentity ZK 1). now apply (mmul_id_l ZK ZL 1 2). Qed.
Lemma mmul_I2 M : wfm 2 2 M -> mmul ZK M (I2 ZK) = M.
Proof. intros [_ H]. change (I2 ZK) with (midentity ZK 1). now apply (mmul_id_r ZK ZL 1). Qed.

Definition delta (q : nat) (M : mat Zi) (j : nat) : mat Zi := if j =? q then M else I2 ZK.
Lemma delta_wf q M j : wfm 2 2 M -> wfm 2 2 (delta q M j).
Proof. intros H. unfold delta. destruct (j =? q); [exact H|apply I2_wf]. Qed.

Lemma sym_op_mk n p q : q < n -> sym_op n (p, q) = mk ZK n (delta q (pmat p)).
Proof.
  intros H. unfold sym_op, mk, delta. cbn [fst snd].
  destruct p; cbn [pmat]; now rewrite (embed_single ZK ZL n 0 q) by assumption.
Qed.

Definition qs_ok (n : nat) (fs : list (pauli * nat)) : Prop := forall f, In f fs -> snd f < n.

Lemma mk_ext n g h : (forall j, j < n -> g j = h j) -> mk ZK n g = mk ZK n h.
Proof. intros H. unfold mk. apply mkfrom_ext. intros j Hj. apply H. lia. Qed.
Lemma mk_mmul n g h : (forall j, wfm 2 2 (g j)) -> (forall j, wfm 2 2 (h j)) ->
  mmul ZK (mk ZK n g) (mk ZK n h) = mk ZK n (fun j => mmul ZK (g j) (h j)).
Proof. intros. unfold mk. now apply (mkfrom_mmul ZK ZL). Qed.
Lemma mk_I2 n : mk ZK n (fun _ => I2 ZK) = midentity ZK n.
Proof. unfold mk. apply (mkfrom_I2 ZK ZL). Qed.
Lemma mk_wf n g : (forall j, wfm 2 2 (g j)) -> wfm (N2 n) (N2 n) (mk ZK n g).
Proof. intros. unfold mk. now apply mkfrom_wf. Qed.

Lemma pq_cons p q fs i : pq ((p, q) :: fs) i = if q =? i then p :: pq fs i else pq fs i.
Proof. unfold pq. cbn [filter snd]. now destruct (q =? i). Qed.

Theorem prod_mk n fs : qs_ok n fs ->
  mprod n (map (sym_op n) fs) = mk ZK n (fun i => P2 (pq fs i)).
Proof.
  induction fs as [|[p q] fs IH]; intros H.
  - cbn. symmetry. apply mk_I2.
  - cbn [map mprod fold_right]. fold (mprod n (map (sym_op n) fs)).
    rewrite IH by (intros f Hf; apply H; now right).
    rewrite sym_op_mk by (apply (H (p, q)); now left).
    rewrite mk_mmul; [|intros; apply delta_wf, pmat_wf|intros; apply P2_wf].
    apply mk_ext. intros j Hj. rewrite pq_cons. unfold delta.
    rewrite (Nat.eqb_sym q j). destruct (j =? q); [reflexivity|apply I2_mmul, P2_wf].
Qed.

(* ------------------------------------------------------------------ shapes, products *)
Lemma sym_op_wf n f : wfm (N2 n) (N2 n) (sym_op n f).
Proof. apply embed_wf. Qed.
Lemma midentity_wfZ n : wfm (N2 n) (N2 n) (midentity ZK n).
Proof. apply (midentity_wf ZK). Qed.
Lemma mprod_wf n l : Forall (wfm (N2 n) (N2 n)) l -> wfm (N2 n) (N2 n) (mprod n l).
Proof.
  induction 1 as [|x l Hx Hl IH]; cbn [mprod fold_right]; [apply midentity_wfZ|].
  apply (mmul_wf ZK _ (N2 n)); [exact Hx|exact IH|apply pow2_ne0].
Qed.
Lemma idl n c X : wfm (N2 n) c X -> mmul ZK (midentity ZK n) X = X.
Proof. apply (mmul_id_l ZK ZL). Qed.
Lemma idr n X : wfm (N2 n) (N2 n) X -> mmul ZK X (midentity ZK n) = X.
Proof. intros [_ H]. now apply (mmul_id_r ZK ZL). Qed.
Lemma mprod_app n l1 l2 : Forall (wfm (N2 n) (N2 n)) l2 ->
  mprod n (l1 ++ l2) = mmul ZK (mprod n l1) (mprod n l2).
Proof.
  intros H2. induction l1 as [|x l1 IH]; cbn [app mprod fold_right].
  - symmetry. apply (idl n (N2 n)). now apply mprod_wf.
  - fold (mprod n (l1 ++ l2)). fold (mprod n l1). now rewrite IH, (mmul_assoc ZK ZL).
Qed.
Lemma mprod_single n x : wfm (N2 n) (N2 n) x -> mprod n [x] = x.
Proof. intros H. cbn. now apply idr. Qed.
Lemma Forall_sym_wf n fs : Forall (wfm (N2 n) (N2 n)) (map (sym_op n) fs).
Proof. apply Forall_forall. intros x H. apply in_map_iff in H as (f & <- & _). apply sym_op_wf. Qed.

(* ------------------------------------------------------------------ the even / odd power rule *)
Lemma pmat_sq p : mmul ZK (pmat p) (pmat p) = I2 ZK.
Proof. destruct p; vm_compute; reflexivity. Qed.

Lemma sym_sq n p q : q < n -> mmul ZK (sym_op n (p, q)) (sym_op n (p, q)) = midentity ZK n.
Proof.
  intros H. rewrite sym_op_mk by assumption.
  rewrite mk_mmul by (intros; apply delta_wf, pmat_wf). rewrite <- mk_I2.
  apply mk_ext. intros j _. unfold delta. destruct (j =? q); [apply pmat_sq|apply I2_mmul, I2_wf].
Qed.

Lemma mpow_sym n p q k : q < n ->
  mpow ZK n (sym_op n (p, q)) k = if Nat.even k then midentity ZK n else sym_op n (p, q).
Proof.
  intros H. induction k as [k IH] using (well_founded_induction lt_wf).
  destruct k as [|[|k]]; [reflexivity|cbn; apply idr, sym_op_wf|].
  cbn [mpow]. rewrite <- (mmul_assoc ZK ZL), sym_sq by assumption.
  rewrite (idl n (N2 n)) by (apply mpow_wf, sym_op_wf).
  rewrite IH by lia. reflexivity.
Qed.

(* ------------------------------------------------------------------ SymbolicTerm.__init__ keeps the operator *)
Definition sfac_ok (n : nat) (f : sfac) : Prop := match f with SF _ q _ => q < n | SN _ => True end.
Definition smono_ok (n : nat) (m : smono) : Prop := Forall (sfac_ok n) (snd m).
Definition term_op (n : nat) (t : sterm) : mat Zi := mono_op n (t_coef t, t_factors t).

Lemma sfac_op_wf n f : wfm (N2 n) (N2 n) (sfac_op n f).
Proof.
  destruct f; cbn [sfac_op]; [apply mpow_wf, embed_wf|apply mscale_wf, midentity_wfZ].
Qed.
Lemma Forall_sfac_wf n l : Forall (wfm (N2 n) (N2 n)) (map (sfac_op n) l).
Proof. apply Forall_forall. intros x H. apply in_map_iff in H as (f & <- & _). apply sfac_op_wf. Qed.

Lemma init_fold n l : Forall (sfac_ok n) l -> forall acc,
  term_op n (fold_left init_fac l acc) =
  mscale ZK (t_coef acc) (mmul ZK (mprod n (map (sym_op n) (t_factors acc))) (mprod n (map (sfac_op n) l))).
Proof.
  induction 1 as [|f l Hf Hl IH]; intros acc.
  - cbn [fold_left map]. unfold term_op, mono_op. cbn [fst snd]. f_equal.
    symmetry. apply idr, mprod_wf, Forall_sym_wf.
  - cbn [fold_left]. rewrite IH. clear IH.
    assert (W : wfm (N2 n) (N2 n) (mprod n (map (sfac_op n) l))) by apply mprod_wf, Forall_sfac_wf.
    cbn [map mprod fold_right]. fold (mprod n (map (sfac_op n) l)).
    destruct f as [p q k|c]; cbn [init_fac sfac_op].
    + cbn in Hf. change (embed ZK n [q] (pmat p)) with (sym_op n (p, q)). rewrite mpow_sym by assumption.
      destruct (Nat.even k).
      * now rewrite (idl n (N2 n)).
      * cbn [t_coef t_factors]. rewrite map_app, mprod_app by apply Forall_sym_wf.
        cbn [map]. rewrite mprod_single by apply sym_op_wf. now rewrite (mmul_assoc ZK ZL).
    + cbn [t_coef t_factors].
      rewrite (mscale_mmul_l ZK ZL), (idl n (N2 n)) by assumption.
      rewrite (mscale_mmul_r ZK ZL), (mscale_mscale ZK ZL). reflexivity.
Qed.

Theorem init_term_op n m : smono_ok n m -> term_op n (init_term m) = smono_op n m.
Proof.
  intros H. unfold init_term. rewrite init_fold by exact H. cbn [t_coef t_factors map mprod fold_right].
  unfold smono_op. f_equal. apply (idl n (N2 n)), mprod_wf, Forall_sfac_wf.
Qed.

Lemma init_fold_qs n l : Forall (sfac_ok n) l -> forall acc, qs_ok n (t_factors acc) ->
  qs_ok n (t_factors (fold_left init_fac l acc)).
Proof.
  induction 1 as [|f l Hf Hl IH]; intros acc Ha; cbn [fold_left]; [exact Ha|].
  apply IH. destruct f as [p q k|c]; cbn [init_fac]; [|exact Ha].
  destruct (Nat.even k); [exact Ha|]. cbn [t_factors]. intros g Hg.
  apply in_app_or in Hg as [Hg|[<-|[]]]; [now apply Ha|exact Hf].
Qed.
Lemma init_term_qs n m : smono_ok n m -> qs_ok n (t_factors (init_term m)).
Proof. intros H. apply init_fold_qs; [exact H|]. intros f []. Qed.

(* ------------------------------------------------------------------ terms = monomials *)
Definition zerosI n := mscale ZK zi0 (midentity ZK n).
Definition terms_prod_matrix (n : nat) (tc : list sterm * Zi) : mat Zi :=
  madd ZK (msum ZK (map (term_op n) (fst tc))) (mscale ZK (snd tc) (midentity ZK n)).

Lemma ins_nodup_nonnil x l : ins_nodup x l <> [].
Proof. destruct l as [|y l]; cbn [ins_nodup]; [discriminate|]. destruct (x <? y); [discriminate|]. destruct (x =? y); discriminate. Qed.
Lemma targets_nil t : is_nil (t_targets t) = is_nil (t_factors t).
Proof.
  unfold t_targets. destruct (t_factors t) as [|f fs]; [reflexivity|].
  cbn [map sort_nodup fold_right is_nil].
  destruct (ins_nodup (snd f) (fold_right ins_nodup [] (map snd fs))) eqn:E; [|reflexivity].
  now apply ins_nodup_nonnil in E.
Qed.

Lemma msum_filter_split {X} (F : X -> mat Zi) (P : X -> bool) l :
  msum ZK (map F l) =
  madd ZK (msum ZK (map F (filter P l))) (msum ZK (map F (filter (fun x => negb (P x)) l))).
Proof.
  induction l as [|x l IH]; [reflexivity|]. cbn [map filter]. rewrite (msum_cons ZK ZL), IH.
  destruct (P x); cbn [negb map]; rewrite (msum_cons ZK ZL).
  - now rewrite (madd_assoc ZK ZL).
  - rewrite !(madd_assoc ZK ZL). f_equal. apply (madd_comm ZK ZL).
Qed.

Lemma const_fold n cs : forall acc,
  mscale ZK (fold_left zi_add cs acc) (midentity ZK n) =
  fold_left (madd ZK) (map (fun c => mscale ZK c (midentity ZK n)) cs) (mscale ZK acc (midentity ZK n)).
Proof.
  induction cs as [|c cs IH]; intros acc; cbn [fold_left map]; [reflexivity|].
  rewrite IH. f_equal. apply (mscale_add ZK ZL).
Qed.

Theorem terms_of_op n ms : Forall (smono_ok n) ms ->
  terms_prod_matrix n (terms_of ms) = madd ZK (zerosI n) (smonos_op n ms).
Proof.
  intros H. unfold terms_prod_matrix, terms_of, smonos_op. cbn [fst snd].
  set (ts := map init_term ms).
  assert (E : map (smono_op n) ms = map (term_op n) ts).
  { unfold ts. rewrite map_map. apply map_ext_in. intros m Hm. symmetry. apply init_term_op.
    eapply Forall_forall in H; [exact H|exact Hm]. }
  rewrite E, (msum_filter_split (term_op n) (fun t => negb (is_nil (t_targets t))) ts).
  rewrite const_fold, (fold_madd_acc ZK ZL).
  fold (zerosI n). fold (msum ZK (map (fun c => mscale ZK c (midentity ZK n))
                                      (map t_coef (filter (fun t => is_nil (t_targets t)) ts)))).
  rewrite (madd_assoc ZK ZL), (madd_comm ZK ZL _ (zerosI n)), <- (madd_assoc ZK ZL). f_equal. f_equal.
  rewrite map_map.
  replace (filter (fun x => negb (negb (is_nil (t_targets x)))) ts)
    with (filter (fun t => is_nil (t_targets t)) ts)
    by (apply filter_ext; intros; now rewrite negb_involutive).
  f_equal. apply map_ext_in. intros t Ht. apply filter_In in Ht as [_ Ht].
  rewrite targets_nil in Ht. unfold term_op, mono_op. cbn [fst snd].
  destruct (t_factors t); [reflexivity|discriminate].
Qed.

Lemma madd_zeros_r_gen a b X : wfm a b X -> forall Y, wfm a b Y -> madd ZK X (mscale ZK zi0 Y) = X.
Proof.
  revert a. induction X as [|x X IH]; intros a [L F] [|y Y] [LY FY]; cbn in *; try lia; try reflexivity.
  inversion F; inversion FY; subst. f_equal.
  - change (map (zi_mul zi0) y) with (vscale ZK zi0 y). rewrite (vscale_0 ZK ZL).
    apply (vadd_zeros_r ZK ZL). lia.
  - apply (IH (length X)); split; try assumption; try reflexivity. lia.
Qed.

Lemma madd_zeros_l n X : wfm (N2 n) (N2 n) X -> madd ZK (zerosI n) X = X.
Proof.
  intros H. unfold zerosI. rewrite (madd_comm ZK ZL).
  apply (madd_zeros_r_gen (N2 n) (N2 n)); [exact H|apply midentity_wfZ].
Qed.

(* terms route in product form: sum of the term operators + constant = [[form]] whenever the
   monomials handed over by sympy denote the form *)
Theorem terms_prod_ok n f ms : Forall (smono_ok n) ms -> smonos_op n ms = denote n f ->
  terms_prod_matrix n (terms_of ms) = denote n f.
Proof. intros H E. rewrite terms_of_op by exact H. rewrite E. apply madd_zeros_l, denote_wf. Qed.

(* ------------------------------------------------------------------ application *)
Lemma pq_app fs gs i : pq (fs ++ gs) i = pq fs i ++ pq gs i.
Proof. unfold pq. now rewrite filter_app, map_app. Qed.
Lemma pq_rev fs i : pq (rev fs) i = rev (pq fs i).
Proof.
  induction fs as [|[p q] fs IH]; [reflexivity|]. cbn [rev]. rewrite pq_app, IH, (pq_cons p q fs i).
  unfold pq at 2. cbn [filter snd]. destruct (q =? i); cbn [map fst rev]; [reflexivity|apply app_nil_r].
Qed.
Lemma memn_In x l : memn x l = true <-> In x l.
Proof.
  induction l as [|y l IH]; cbn; [split; [discriminate|tauto]|].
  rewrite orb_true_iff, IH, Nat.eqb_eq. split; intros [H|H]; auto.
Qed.
Lemma pq_nil fs i : ~ In i (map snd fs) -> pq fs i = [].
Proof.
  induction fs as [|[p q] fs IH]; intros H; [reflexivity|]. rewrite pq_cons.
  destruct (Nat.eqb_spec q i); [exfalso; apply H; now left|]. apply IH. intro; apply H; now right.
Qed.
Lemma pq_short fs i : nodupb (map snd fs) = true -> length (pq fs i) <= 1.
Proof.
  induction fs as [|[p q] fs IH]; intros H; [cbn; lia|]. cbn [map snd nodupb] in H.
  apply andb_true_iff in H as [H1 H2]. rewrite pq_cons. destruct (Nat.eqb_spec q i).
  - subst. rewrite pq_nil; [cbn; lia|]. intro Hin. apply memn_In in Hin. now rewrite Hin in H1.
  - now apply IH.
Qed.
Lemma rev_short {X} (l : list X) : length l <= 1 -> rev l = l.
Proof. destruct l as [|x [|y l]]; cbn; intros; try reflexivity; lia. Qed.

Lemma fold_apply n c fs : qs_ok n fs -> forall S, wfm (N2 n) c S ->
  fold_left (fun s f => mmul ZK (sym_op n f) s) fs S = mmul ZK (mprod n (map (sym_op n) (rev fs))) S.
Proof.
  intros Hq. induction fs as [|f fs IH]; intros S HS.
  - cbn. symmetry. now apply (idl n c).
  - cbn [fold_left rev]. rewrite IH.
    + rewrite map_app, mprod_app by apply Forall_sym_wf. cbn [map].
      rewrite mprod_single by apply sym_op_wf. now rewrite (mmul_assoc ZK ZL).
    + intros g Hg. apply Hq. now right.
    + apply (mmul_wf ZK _ (N2 n)); [apply sym_op_wf|exact HS|apply pow2_ne0].
Qed.

Theorem apply_term_ok n c t S : qs_ok n (t_factors t) -> nodupb (map snd (t_factors t)) = true ->
  wfm (N2 n) c S -> apply_term_prefix n t S = mmul ZK (term_op n t) S.
Proof.
  intros Hq Hd HS. unfold apply_term_prefix, term_op, mono_op. cbn [fst snd].
  rewrite (fold_apply n c) by assumption. rewrite (mscale_mmul_l ZK ZL). f_equal. f_equal.
  rewrite !prod_mk; [|exact Hq|intros f Hf; apply Hq; now apply in_rev].
  apply mk_ext. intros j _. rewrite pq_rev, rev_short; [reflexivity|now apply pq_short].
Qed.

(* with the repair (factors applied last-to-first) no hypothesis on the factors is needed *)
Theorem apply_term_fixed_ok n c t S : wfm (N2 n) c S ->
  apply_term n t S = mmul ZK (term_op n t) S.
Proof.
  intros HS. unfold apply_term, term_op, mono_op. cbn [fst snd].
  rewrite (mscale_mmul_l ZK ZL). f_equal.
  induction (t_factors t) as [|f fs IH]; cbn [fold_right map mprod].
  - symmetry. now apply (idl n c).
  - fold (mprod n (map (sym_op n) fs)). now rewrite IH, (mmul_assoc ZK ZL).
Qed.

Lemma zi_is0_true c : zi_is0 c = true -> c = zi0.
Proof.
  destruct c as [a b]. unfold zi_is0, zi_eqb. cbn. intros H. apply andb_true_iff in H as [H1 H2].
  apply Z.eqb_eq in H1, H2. now subst.
Qed.

Lemma msum_wf a b l : l <> [] -> Forall (wfm a b) l -> wfm a b (msum ZK l).
Proof.
  intros Hne H. induction H as [|A l HA Hl IH]; [congruence|].
  rewrite (msum_cons ZK ZL). destruct l as [|B l].
  - rewrite (msum_nil ZK), (madd_nil_r ZK). exact HA.
  - apply madd_wf; [exact HA|apply IH; discriminate].
Qed.
Lemma term_op_wf n t : wfm (N2 n) (N2 n) (term_op n t).
Proof. unfold term_op, mono_op. apply mscale_wf, mprod_wf, Forall_sym_wf. Qed.

Theorem apply_gates_ok n c tc S :
  (forall t, In t (fst tc) -> qs_ok n (t_factors t)) -> one_factor_per_qubit (fst tc) = true ->
  wfm (N2 n) c S -> (fst tc <> [] \/ snd tc <> zi0) ->
  apply_gates_prefix n tc S = mmul ZK (terms_prod_matrix n tc) S.
Proof.
  intros Hq Hd HS Hne. unfold apply_gates_prefix, terms_prod_matrix.
  assert (E : map (fun t => apply_term_prefix n t S) (fst tc) = map (fun A => mmul ZK A S) (map (term_op n) (fst tc))).
  { rewrite map_map. apply map_ext_in. intros t Ht. apply (apply_term_ok n c); [now apply Hq| |exact HS].
    unfold one_factor_per_qubit in Hd. rewrite forallb_forall in Hd. now apply Hd. }
  rewrite E, <- (mmul_msum_l ZK ZL), (mmul_madd_l ZK ZL), (mscale_mmul_l ZK ZL), (idl n c) by exact HS.
  destruct (zi_is0 (snd tc)) eqn:Z; [|reflexivity].
  apply zi_is0_true in Z. rewrite Z. destruct Hne as [Hne|Hne]; [|congruence].
  symmetry. apply (madd_zeros_r_gen (N2 n) c); [|exact HS].
  apply (mmul_wf ZK _ (N2 n)); [|exact HS|apply pow2_ne0].
  apply msum_wf; [destruct (fst tc); [congruence|discriminate]|].
  apply Forall_forall. intros A HA. apply in_map_iff in HA as (t & <- & _). apply term_op_wf.
Qed.

Theorem apply_gates_fixed_ok n c tc S : wfm (N2 n) c S -> (fst tc <> [] \/ snd tc <> zi0) ->
  apply_gates n tc S = mmul ZK (terms_prod_matrix n tc) S.
Proof.
  intros HS Hne. unfold apply_gates, terms_prod_matrix.
  assert (E : map (fun t => apply_term n t S) (fst tc) = map (fun A => mmul ZK A S) (map (term_op n) (fst tc))).
  { rewrite map_map. apply map_ext. intros t. now apply (apply_term_fixed_ok n c). }
  rewrite E, <- (mmul_msum_l ZK ZL), (mmul_madd_l ZK ZL), (mscale_mmul_l ZK ZL), (idl n c) by exact HS.
  destruct (zi_is0 (snd tc)) eqn:Z; [|reflexivity].
  apply zi_is0_true in Z. rewrite Z. destruct Hne as [Hne|Hne]; [|congruence].
  symmetry. apply (madd_zeros_r_gen (N2 n) c); [|exact HS].
  apply (mmul_wf ZK _ (N2 n)); [|exact HS|apply pow2_ne0].
  apply msum_wf; [destruct (fst tc); [congruence|discriminate]|].
  apply Forall_forall. intros A HA. apply in_map_iff in HA as (t & <- & _). apply term_op_wf.
Qed.

Lemma terms_of_qs n ms : Forall (smono_ok n) ms -> forall t, In t (fst (terms_of ms)) -> qs_ok n (t_factors t).
Proof.
  intros H t Ht. unfold terms_of in Ht. cbn [fst] in Ht. apply filter_In in Ht as [Ht _].
  apply in_map_iff in Ht as (m & <- & Hm). apply init_term_qs.
  eapply Forall_forall in H; [exact H|exact Hm].
Qed.
