(* C15/Proofs6.v : expectation values from samples *)
From Coq Require Import ZArith List Bool Arith Lia Permutation.
From QV Require Import Base.Mat Base.Zi C15.MatDefs C15.Model C15.MatAlg C15.Proofs.
Import ListNotations.

Definition nsum (l : list nat) : nat := fold_right Nat.add 0 l.
Lemma nsum_perm l l' : Permutation l l' -> nsum l = nsum l'.
Proof. unfold nsum. induction 1; cbn [fold_right] in *; lia. Qed.

Definition weight (n : nat) (b : bool) (i : nat) : nat := if b then 2 ^ (n - 1 - i) else 0.

Lemma idx_sum b : idx b = nsum (map (fun i => weight (length b) (nth i b false) i) (seq 0 (length b))).
Proof.
  induction b as [|x b IH]; [reflexivity|].
  rewrite idx_cons. cbn [length seq map nsum fold_right]. fold (nsum (map (fun i => weight (S (length b)) (nth i (x :: b) false) i) (seq 1 (length b)))).
  f_equal.
  - unfold weight. cbn [nth]. replace (S (length b) - 1 - 0) with (length b) by lia. reflexivity.
  - rewrite IH, <- seq_shift, map_map. f_equal. apply map_ext. intros i. unfold weight. cbn [nth].
    replace (S (length b) - 1 - S i) with (length b - 1 - i) by lia. reflexivity.
Qed.

Lemma opt_all_some {A B} (f : A -> option B) (g : A -> B) l :
  (forall x, In x l -> f x = Some (g x)) -> opt_all (map f l) = Some (map g l).
Proof.
  induction l as [|x l IH]; intros H; cbn [map opt_all]; [reflexivity|].
  rewrite (H x) by now left. rewrite IH by (intros; apply H; now right). reflexivity.
Qed.

Lemma index_of_In x l : In x l -> exists j, index_of x l = Some j /\ j < length l.
Proof.
  induction l as [|y l IH]; intros H; [destruct H|]. cbn [index_of].
  destruct (Nat.eqb_spec x y); [exists 0; cbn; split; [reflexivity|lia]|].
  destruct H as [H|H]; [congruence|]. destruct (IH H) as (j & E & L). exists (S j). rewrite E. cbn. split; [reflexivity|lia].
Qed.

Lemma key_bit_total key qmap n q : length key = n -> length qmap = n -> In q qmap ->
  exists b, key_bit key qmap q = Some b.
Proof.
  intros Lk Lq H. unfold key_bit. destruct (index_of_In q qmap H) as (j & E & L). rewrite E.
  destruct (nth_error key j) eqn:N; [eauto|]. apply nth_error_None in N. lia.
Qed.

Theorem dense_index_perm n key qmap : Permutation qmap (seq 0 n) -> length key = n ->
  dense_sample_index key qmap = Some (idx (key_state n key qmap)).
Proof.
  intros P Lk. assert (Lq : length qmap = n) by (rewrite (Permutation_length P); apply seq_length).
  unfold dense_sample_index. rewrite Lq.
  set (bit := fun q => match key_bit key qmap q with Some b => b | None => false end).
  rewrite (opt_all_some _ (fun i => weight n (bit i) i)).
  - cbn [option_map]. f_equal. fold (nsum (map (fun i => weight n (bit i) i) qmap)).
    rewrite (nsum_perm _ _ (Permutation_map _ P)), idx_sum. unfold key_state. rewrite map_length, seq_length.
    f_equal. apply map_ext_in. intros i Hi. apply in_seq in Hi. f_equal.
    rewrite (nth_indep _ false (bit 0)) by (rewrite map_length, seq_length; lia).
    now rewrite (map_nth (fun q => bit q)), seq_nth by lia.
  - intros i Hi. assert (Hi' : In i (seq 0 n)) by (eapply Permutation_in; eauto). apply in_seq in Hi'.
    destruct (Nat.leb_spec n i); [lia|].
    destruct (key_bit_total key qmap n i Lk Lq Hi) as (b & E). unfold bit. rewrite E. reflexivity.
Qed.

Lemma zsum_opt {X} (f : X -> option Z) (g : X -> Z) l :
  (forall x, In x l -> f x = Some (g x)) ->
  option_map (fold_right Z.add 0%Z) (opt_all (map f l)) = Some (fold_right Z.add 0%Z (map g l)).
Proof. intros H. now rewrite (opt_all_some f g l H). Qed.

(* Hamiltonian.expectation_from_samples on a diagonal observable, qubit map = a permutation of the
   whole register: frequency-weighted diagonal entries of the basis states the keys denote *)
Theorem samples_dense_perm n M fr qmap :
  is_diag M = true -> length M = 2 ^ n -> Permutation qmap (seq 0 n) ->
  Forall (fun kc : list bool * Z => length (fst kc) = n) fr ->
  dense_samples M fr qmap = Some (samples_spec n M fr qmap, ftotal fr).
Proof.
  intros D L P F. unfold dense_samples. rewrite D. cbn [negb].
  rewrite (opt_all_some _ (fun kc : list bool * Z =>
     (fst (mget ZK M (idx (key_state n (fst kc) qmap)) (idx (key_state n (fst kc) qmap))) * snd kc)%Z)).
  - reflexivity.
  - intros kc Hk. rewrite Forall_forall in F. rewrite (dense_index_perm n) by (auto using F).
    assert (Hl : idx (key_state n (fst kc) qmap) < length M).
    { rewrite L. eapply Nat.lt_le_trans; [apply idx_lt|].
      unfold key_state. rewrite map_length, seq_length. lia. }
    apply Nat.ltb_lt in Hl. now rewrite Hl.
Qed.
