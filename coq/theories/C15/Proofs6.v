(* C15/Proofs6.v : expectation values from samples *)
From Coq Require Import ZArith List Bool Arith Lia Permutation.
From QV Require Import Base.Mat Base.Zi C15.MatDefs C15.Model C15.MatAlg C15.Proofs.
Import ListNotations.

Definition nsum (l : list nat) : nat := fold_right Nat.add 0 l.
Lemma nsum_perm l l' : Permutation l l' -> nsum l = nsum l'.
Proof. unfold nsum. induction 1; cbn [fold_right] in *; lia. Qed.

Definition weight (n : nat) (b : bool) (i : nat) : nat := if b then 2 ^ (n - 1 - i) else 0.

Lemma idx_sum b : idx b = nsum (map (fun i => weight (length b) (nth i b false) i) (seq 0 (length b))).
Proof.
  induction b as [|x b IH]; [reflexivity|].
  rewrite idx_cons. cbn [length seq map nsum fold_right]. fold (nsum (map (fun i => weight (S (length b)) (nth i (x :: b) false) i) (seq 1 (length b)))).
  f_equal.
  - unfold weight. cbn [nth]. replace (S (length b) - 1 - 0) with (length b) by lia. reflexivity.
  - rewrite IH, <- seq_shift, map_map. f_equal. apply map_ext. intros i. unfold weight. cbn [nth].
    replace (S (length b) - 1 - S i) with (length b - 1 - i) by lia. reflexivity.
Qed.

Lemma opt_all_some {A B} (f : A -> option B) (g : A -> B) l :
  (forall x, In x l -> f x = Some (g x)) -> opt_all (map f l) = Some (map g l).
Proof.
  induction l as [|x l IH]; intros H; cbn [map opt_all]; [reflexivity|].
  rewrite (H x) by now left. rewrite IH by (intros; apply H; now right). reflexivity.
Qed.

Lemma index_of_In x l : In x l -> exists j, index_of x l = Some j /\ j < length l.
Proof.
  induction l as [|y l IH]; intros H; [destruct H|]. cbn [index_of].
  destruct (Nat.eqb_spec x y); [exists 0; cbn; split; [reflexivity|lia]|].
  destruct H as [H|H]; [congruence|]. destruct (IH H) as (j & E & L). exists (S j). rewrite E. cbn. split; [reflexivity|lia].
Qed.

Lemma key_bit_total key qmap n q : length key = n -> length qmap = n -> In q qmap ->
  exists b, key_bit key qmap q = Some b.
Proof.
  intros Lk Lq H. unfold key_bit. destruct (index_of_In q qmap H) as (j & E & L). rewrite E.
  destruct (nth_error key j) eqn:N; [eauto|]. apply nth_error_None in N. lia.
Qed.

Theorem dense_index_perm n key qmap : Permutation qmap (seq 0 n) -> length key = n ->
  dense_sample_index_prefix key qmap = Some (idx (key_state n key qmap)).
Proof.
  intros P Lk. assert (Lq : length qmap = n) by (rewrite (Permutation_length P); apply seq_length).
  unfold dense_sample_index_prefix. rewrite Lq.
  set (bit := fun q => match key_bit key qmap q with Some b => b | None => false end).
  rewrite (opt_all_some _ (fun i => weight n (bit i) i)).
  - cbn [option_map]. f_equal. fold (nsum (map (fun i => weight n (bit i) i) qmap)).
    rewrite (nsum_perm _ _ (Permutation_map _ P)), idx_sum. unfold key_state. rewrite map_length, seq_length.
    f_equal. apply map_ext_in. intros i Hi. apply in_seq in Hi. f_equal.
    rewrite (nth_indep _ false (bit 0)) by (rewrite map_length, seq_length; lia).
    now rewrite (map_nth (fun q => bit q)), seq_nth by lia.
  - intros i Hi. assert (Hi' : In i (seq 0 n)) by (eapply Permutation_in; eauto). apply in_seq in Hi'.
    destruct (Nat.leb_spec n i); [lia|].
    destruct (key_bit_total key qmap n i Lk Lq Hi) as (b & E). unfold bit. rewrite E. reflexivity.
Qed.

Lemma zsum_opt {X} (f : X -> option Z) (g : X -> Z) l :
  (forall x, In x l -> f x = Some (g x)) ->
  option_map (fold_right Z.add 0%Z) (opt_all (map f l)) = Some (fold_right Z.add 0%Z (map g l)).
Proof. intros H. now rewrite (opt_all_some f g l H). Qed.

(* Hamiltonian.expectation_from_samples on a diagonal observable, qubit map = a permutation of the
   whole register: frequency-weighted diagonal entries of the basis states the keys denote *)
Theorem samples_dense_perm n M fr qmap :
  is_diag M = true -> length M = 2 ^ n -> Permutation qmap (seq 0 n) ->
  Forall (fun kc : list bool * Z => length (fst kc) = n) fr ->
  dense_samples_prefix M fr qmap = Some (samples_spec n M fr qmap, ftotal fr).
Proof.
  intros D L P F. unfold dense_samples_prefix. rewrite D. cbn [negb].
  rewrite (opt_all_some _ (fun kc : list bool * Z =>
     (fst (mget ZK M (idx (key_state n (fst kc) qmap)) (idx (key_state n (fst kc) qmap))) * snd kc)%Z)).
  - reflexivity.
  - intros kc Hk. rewrite Forall_forall in F. rewrite (dense_index_perm n) by (auto using F).
    assert (Hl : idx (key_state n (fst kc) qmap) < length M).
    { rewrite L. eapply Nat.lt_le_trans; [apply idx_lt|].
      unfold key_state. rewrite map_length, seq_length. lia. }
    apply Nat.ltb_lt in Hl. now rewrite Hl.
Qed.

(* ------------------------------------------------------------------ the live dense route (size = log2 len(obs)) *)
Lemma nsum_zero {X} (l : list X) : nsum (map (fun _ => 0) l) = 0.
Proof. induction l; cbn; auto. Qed.
Lemma nsum_add {X} (f g : X -> nat) l : nsum (map (fun x => f x + g x) l) = nsum (map f l) + nsum (map g l).
Proof. unfold nsum. induction l as [|x l IH]; cbn [map fold_right]; [reflexivity|]. rewrite IH. lia. Qed.
Lemma fold_zero {X} a (l : list X) : fold_right Nat.add a (map (fun _ => 0) l) = a.
Proof. induction l; cbn; auto. Qed.
Lemma nsum_single (w : nat -> nat) x n : x < n -> nsum (map (fun i => if i =? x then w i else 0) (seq 0 n)) = w x.
Proof.
  induction n as [|n IH]; intros H; [lia|]. rewrite seq_S, map_app. cbn [Nat.add map].
  unfold nsum in *. rewrite fold_right_app. cbn [fold_right].
  destruct (Nat.eqb_spec n x) as [->|N].
  - assert (Z0 : forall a, fold_right Nat.add a (map (fun i => if i =? x then w i else 0) (seq 0 x)) = a).
    { intros a. rewrite (map_ext_in _ (fun _ => 0)).
      - apply fold_zero.
      - intros i Hi. apply in_seq in Hi. destruct (Nat.eqb_spec i x); [lia|reflexivity]. }
    rewrite Z0. lia.
  - rewrite Nat.add_0_r. apply IH. lia.
Qed.

Fixpoint memq (x : nat) (l : list nat) : bool :=
  match l with [] => false | y :: l' => (x =? y) || memq x l' end.
Lemma memq_In x l : memq x l = true <-> In x l.
Proof.
  induction l as [|y l IH]; cbn [memq In]; [split; [discriminate|tauto]|].
  rewrite orb_true_iff, IH, Nat.eqb_eq. split; intros [H|H]; auto.
Qed.

Lemma nsum_nodup (w : nat -> nat) n l : NoDup l -> (forall x, In x l -> x < n) ->
  nsum (map w l) = nsum (map (fun i => if memq i l then w i else 0) (seq 0 n)).
Proof.
  induction 1 as [|x l Hx Hl IH]; intros Hb.
  - cbn [map memq]. now rewrite nsum_zero.
  - cbn [map]. change (nsum (w x :: map w l)) with (w x + nsum (map w l)).
    rewrite IH by (intros; apply Hb; now right).
    rewrite <- (nsum_single w x n) by (apply Hb; now left). rewrite <- nsum_add.
    f_equal. apply map_ext. intros i. cbn [memq]. destruct (Nat.eqb_spec i x) as [->|N]; cbn [orb]; [|reflexivity].
    destruct (memq x l) eqn:M; [apply memq_In in M; contradiction|lia].
Qed.

Lemma index_of_None x l : ~ In x l -> index_of x l = None.
Proof.
  induction l as [|y l IH]; intros H; [reflexivity|]. cbn [index_of].
  destruct (Nat.eqb_spec x y); [exfalso; apply H; now left|]. rewrite IH; [reflexivity|]. intro; apply H; now right.
Qed.

Theorem dense_index_live n key qmap : NoDup qmap -> (forall q, In q qmap -> q < n) ->
  length key = length qmap ->
  dense_sample_index n key qmap = Some (idx (key_state n key qmap)).
Proof.
  intros ND Hb Lk. unfold dense_sample_index.
  set (bit := fun q => match key_bit key qmap q with Some b => b | None => false end).
  rewrite (opt_all_some _ (fun i => weight n (bit i) i)).
  - cbn [option_map]. f_equal. fold (nsum (map (fun i => weight n (bit i) i) qmap)).
    rewrite (nsum_nodup _ n) by assumption. rewrite idx_sum. unfold key_state. rewrite map_length, seq_length.
    f_equal. apply map_ext_in. intros i Hi. apply in_seq in Hi.
    rewrite (nth_indep _ false (bit 0)) by (rewrite map_length, seq_length; lia).
    rewrite (map_nth (fun q => bit q)), seq_nth by lia. cbn [Nat.add].
    destruct (memq i qmap) eqn:M; [reflexivity|].
    unfold bit, key_bit. rewrite index_of_None; [reflexivity|]. intro H. apply memq_In in H. congruence.
  - intros i Hi. pose proof (Hb i Hi). destruct (Nat.leb_spec n i); [lia|].
    destruct (key_bit_total key qmap (length qmap) i Lk eq_refl Hi) as (b & E). unfold bit. rewrite E. reflexivity.
Qed.

(* Hamiltonian.expectation_from_samples: any duplicate-free qubit map inside the register (full or
   partial), keys with one bit per mapped qubit; unmapped qubits are read as 0 *)
Theorem samples_dense_live n M fr qmap :
  is_diag M = true -> length M = 2 ^ n -> NoDup qmap -> (forall q, In q qmap -> q < n) ->
  Forall (fun kc : list bool * Z => length (fst kc) = length qmap) fr ->
  dense_samples M fr qmap = Some (samples_spec n M fr qmap, ftotal fr).
Proof.
  intros D L ND Hb F. unfold dense_samples. rewrite L, Nat.log2_pow2 by lia. unfold dense_samples_n. rewrite D. cbn [negb].
  rewrite (opt_all_some _ (fun kc : list bool * Z =>
     (fst (mget ZK M (idx (key_state n (fst kc) qmap)) (idx (key_state n (fst kc) qmap))) * snd kc)%Z)).
  - reflexivity.
  - intros kc Hk. rewrite Forall_forall in F. rewrite (dense_index_live n) by (auto using F).
    assert (Hl : idx (key_state n (fst kc) qmap) < length M).
    { rewrite L. eapply Nat.lt_le_trans; [apply idx_lt|].
      unfold key_state. rewrite map_length, seq_length. lia. }
    apply Nat.ltb_lt in Hl. now rewrite Hl.
Qed.
