(* C15/Model.v : executable model of qibo's symbolic / dense Hamiltonians over Gaussian integers.
   No proofs here.  Anchors (src/qibo):
     hamiltonians/hamiltonians.py  SymbolicHamiltonian._get_symbol_matrix / terms / apply_gates /
                                   __matmul__ / expectation_from_samples / _compose,
                                   Hamiltonian.__add__/__sub__/__rsub__/__mul__/__matmul__ /
                                   expectation_from_samples
     hamiltonians/terms.py         SymbolicTerm.__init__ / matrix / __call__
     hamiltonians/models.py        TFIM, X, Y, Z, MaxCut, Heisenberg (XXZ, XXX), _build_spin_model
     symbols.py                    Symbol.full_matrix
     backends/numpy.py             calculate_expectation_state / _density_matrix            *)
From Coq Require Import ZArith List Bool Arith.
From QV Require Import Base.Mat Base.Zi C15.MatDefs.
Import ListNotations.

Notation ZK := Ziops.

Inductive pauli := PI | PX | PY | PZ.

Definition pauli_eqb (a b : pauli) : bool :=
  match a, b with PI, PI | PX, PX | PY, PY | PZ, PZ => true | _, _ => false end.

Definition zim1 : Zi := (-1, 0)%Z.
Definition zimi : Zi := (0, -1)%Z.

(* backends/npmatrices.py  I, X, Y, Z *)
Definition pmat (p : pauli) : mat Zi :=
  match p with
  | PI => [[zi1; zi0]; [zi0; zi1]]
  | PX => [[zi0; zi1]; [zi1; zi0]]
  | PY => [[zi0; zimi]; [zii; zi0]]
  | PZ => [[zi1; zi0]; [zi0; zim1]]
  end.

(* ------------------------------------------------------------------ forms *)
(* the sympy expression tree as the code traverses it (Add / Mul are folded to the left, the
   way  sum(...)  and  reduce(matmul, ...)  consume as_ordered_terms / as_ordered_factors) *)
Inductive form :=
| FSym (p : pauli) (q : nat)
| FNum (c : Zi)
| FAdd (a b : form)
| FMul (a b : form)
| FPow (a : form) (k : nat).

Fixpoint form_ok (n : nat) (f : form) : bool :=
  match f with
  | FSym _ q => q <? n
  | FNum _ => true
  | FAdd a b | FMul a b => form_ok n a && form_ok n b
  | FPow a _ => form_ok n a
  end.

(* THE SPECIFICATION: the operator a form denotes on n qubits, by structural recursion with
   matrix sum / product / power and the embedded one-qubit Pauli matrix (Base/Mat.embed,
   qubit 0 = most significant bit) *)
Fixpoint denote (n : nat) (f : form) : mat Zi :=
  match f with
  | FSym p q => embed ZK n [q] (pmat p)
  | FNum c => mscale ZK c (midentity ZK n)
  | FAdd a b => madd ZK (denote n a) (denote n b)
  | FMul a b => mmul ZK (denote n a) (denote n b)
  | FPow a k => mpow ZK n (denote n a) k
  end.

(* ------------------------------------------------------------------ dense route *)
(* Symbol.full_matrix: _multikron(q * [I] + [matrix] + (n - q - 1) * [I]) *)
Definition full_matrix (n q : nat) (M : mat Zi) : mat Zi :=
  multikron ZK (repeat (I2 ZK) q ++ [M] ++ repeat (I2 ZK) (n - q - 1)).

(* SymbolicHamiltonian._get_symbol_matrix.  None = the real code raises (a symbol on a qubit
   >= nqubits yields a matrix of the wrong shape, rejected by numpy / Hamiltonian.matrix) *)
Fixpoint dense (n : nat) (f : form) : option (mat Zi) :=
  match f with
  | FSym p q => if q <? n then Some (full_matrix n q (pmat p)) else None
  | FNum c => Some (mscale ZK c (midentity ZK n))
  | FAdd a b =>
      match dense n a, dense n b with
      | Some A, Some B => Some (madd ZK A B) | _, _ => None end
  | FMul a b =>
      match dense n a, dense n b with
      | Some A, Some B => Some (mmul ZK A B) | _, _ => None end
  | FPow a k => match dense n a with Some A => Some (mpow ZK n A k) | None => None end
  end.

(* ------------------------------------------------------------------ terms route *)
(* one factor of a key of  sympy.expand(form).as_coefficients_dict()  as returned by
   as_ordered_factors(): a (power of a) Pauli symbol, or a number (sympy.I included) *)
Inductive sfac := SF (p : pauli) (q : nat) (k : nat) | SN (c : Zi).
Definition smono := (Zi * list sfac)%type.

(* SymbolicTerm after __init__: coefficient and the flat factor list; matrix_map[q] is the
   sub-list of the factors on qubit q in the same order, target_qubits the sorted keys *)
Record sterm := mk_sterm { t_coef : Zi; t_factors : list (pauli * nat) }.

Definition init_fac (acc : sterm) (f : sfac) : sterm :=
  match f with
  | SN c => mk_sterm (zi_mul (t_coef acc) c) (t_factors acc)
  | SF p q k =>
      if Nat.even k then acc    (* factor = sympy.N(1): coefficient *= 1 *)
      else mk_sterm (t_coef acc) (t_factors acc ++ [(p, q)])
  end.
Definition init_term (m : smono) : sterm := fold_left init_fac (snd m) (mk_sterm (fst m) []).

Fixpoint ins_nodup (x : nat) (l : list nat) : list nat :=
  match l with
  | [] => [x]
  | y :: l' => if x <? y then x :: l else if x =? y then l else y :: ins_nodup x l'
  end.
Definition sort_nodup (l : list nat) : list nat := fold_right ins_nodup [] l.

Definition t_targets (t : sterm) : list nat := sort_nodup (map snd (t_factors t)).
Definition facs_on (q : nat) (t : sterm) : list pauli :=
  map fst (filter (fun f => snd f =? q) (t_factors t)).

(* SymbolicTerm.matrix *)
Definition term_matrix (t : sterm) : mat Zi :=
  mscale ZK (t_coef t)
    (multikron ZK (map (fun q => multimul ZK (map pmat (facs_on q t))) (t_targets t))).

(* the operator of a term on n qubits: its matrix on its target qubits (gates.Unitary(matrix, *targets)) *)
Definition term_full (n : nat) (t : sterm) : mat Zi := embed ZK n (t_targets t) (term_matrix t).

Definition is_nil {A} (l : list A) : bool := match l with [] => true | _ => false end.

(* SymbolicHamiltonian.terms : (terms with targets, constant) *)
Definition terms_of (ms : list smono) : list sterm * Zi :=
  let ts := map init_term ms in
  (filter (fun t => negb (is_nil (t_targets t))) ts,
   fold_left zi_add (map t_coef (filter (fun t => is_nil (t_targets t)) ts)) zi0).

Definition terms_ok_q (n : nat) (ts : list sterm) : bool :=
  forallb (fun t => forallb (fun f => snd f <? n) (t_factors t)) ts.

Definition terms_matrix (n : nat) (tc : list sterm * Zi) : mat Zi :=
  madd ZK (msum ZK (map (term_full n) (fst tc))) (mscale ZK (snd tc) (midentity ZK n)).

(* the model's own expansion (what sympy.expand is expected to produce, up to collecting) *)
Definition mono := (Zi * list (pauli * nat))%type.
Definition mono_mul (a b : mono) : mono := (zi_mul (fst a) (fst b), snd a ++ snd b).
Definition monos_mul (A B : list mono) : list mono :=
  flat_map (fun a => map (fun b => mono_mul a b) B) A.
Fixpoint monos_pow (A : list mono) (k : nat) : list mono :=
  match k with O => [(zi1, [])] | S k' => monos_mul A (monos_pow A k') end.
Fixpoint expand (f : form) : list mono :=
  match f with
  | FSym p q => [(zi1, [(p, q)])]
  | FNum c => [(c, [])]
  | FAdd a b => expand a ++ expand b
  | FMul a b => monos_mul (expand a) (expand b)
  | FPow a k => monos_pow (expand a) k
  end.
(* sympy merges adjacent equal non-commutative symbols into a power *)
Fixpoint compress (l : list (pauli * nat)) : list sfac :=
  match l with
  | [] => []
  | (p, q) :: l' =>
      match compress l' with
      | SF p' q' k :: r => if pauli_eqb p p' && (q =? q') then SF p q (S k) :: r
                           else SF p q 1 :: SF p' q' k :: r
      | r => SF p q 1 :: r
      end
  end.
Definition compress_mono (m : mono) : smono := (fst m, compress (snd m)).
Definition model_terms (f : form) : list sterm * Zi := terms_of (map compress_mono (expand f)).

(* denotation of monomials (the contract for the sympy oracle: expansion keeps the operator) *)
Definition mprod (n : nat) (l : list (mat Zi)) : mat Zi :=
  fold_right (mmul ZK) (midentity ZK n) l.
Definition sym_op (n : nat) (f : pauli * nat) : mat Zi := embed ZK n [snd f] (pmat (fst f)).
Definition sfac_op (n : nat) (f : sfac) : mat Zi :=
  match f with
  | SF p q k => mpow ZK n (embed ZK n [q] (pmat p)) k
  | SN c => mscale ZK c (midentity ZK n)
  end.
Definition smono_op (n : nat) (m : smono) : mat Zi :=
  mscale ZK (fst m) (mprod n (map (sfac_op n) (snd m))).
Definition smonos_op (n : nat) (ms : list smono) : mat Zi := msum ZK (map (smono_op n) ms).
Definition mono_op (n : nat) (m : mono) : mat Zi :=
  mscale ZK (fst m) (mprod n (map (sym_op n) (snd m))).

(* ------------------------------------------------------------------ application route *)
(* HISTORICAL (before the repair of SymbolicTerm.__call__): the factor gates were applied one after
   another in list order, i.e. the operator product in reverse order *)
Definition apply_term_prefix (n : nat) (t : sterm) (S : mat Zi) : mat Zi :=
  mscale ZK (t_coef t) (fold_left (fun s f => mmul ZK (sym_op n f) s) (t_factors t) S).

Definition zi_is0 (c : Zi) : bool := zi_eqb c zi0.

Definition apply_gates_prefix (n : nat) (tc : list sterm * Zi) (S : mat Zi) : mat Zi :=
  let total := msum ZK (map (fun t => apply_term_prefix n t S) (fst tc)) in
  if zi_is0 (snd tc) then total else madd ZK total (mscale ZK (snd tc) S).

(* what the application should be *)
Definition apply_spec (n : nat) (f : form) (S : mat Zi) : mat Zi := mmul ZK (denote n f) S.

(* SymbolicTerm.__call__ : `for factor in reversed(self.factors)`: the last factor acts first, then the
   coefficient; the state is a column (state vector) or a square matrix (density matrix:
   apply_gate_half_density_matrix multiplies from the left) *)
Definition apply_term (n : nat) (t : sterm) (S : mat Zi) : mat Zi :=
  mscale ZK (t_coef t) (fold_right (fun f s => mmul ZK (sym_op n f) s) S (t_factors t)).
(* SymbolicHamiltonian.apply_gates *)
Definition apply_gates (n : nat) (tc : list sterm * Zi) (S : mat Zi) : mat Zi :=
  let total := msum ZK (map (fun t => apply_term n t S) (fst tc)) in
  if zi_is0 (snd tc) then total else madd ZK total (mscale ZK (snd tc) S).

Fixpoint memn (x : nat) (l : list nat) : bool :=
  match l with [] => false | y :: l' => (x =? y) || memn x l' end.
Fixpoint nodupb (l : list nat) : bool :=
  match l with [] => true | x :: l' => negb (memn x l') && nodupb l' end.
(* every term has at most one factor per qubit (TFIM / XXZ-like forms) *)
Definition one_factor_per_qubit (ts : list sterm) : bool :=
  forallb (fun t => nodupb (map snd (t_factors t))) ts.

(* ------------------------------------------------------------------ expectation *)
Fixpoint vdotc (u v : vec Zi) : Zi :=
  match u, v with
  | x :: u', y :: v' => zi_add (zi_mul (zi_conj x) y) (vdotc u' v')
  | _, _ => zi0
  end.
(* calculate_expectation_state (normalize=False): Re sum conj(psi) * (h @ psi) *)
Definition expect_state (hpsi psi : mat Zi) : Z := fst (vdotc (uncol psi) (uncol hpsi)).
Definition norm2 (psi : mat Zi) : Z := fst (vdotc (uncol psi) (uncol psi)).
(* calculate_expectation_density_matrix (normalize=False): Re tr(h @ rho) *)
Definition expect_dm (hrho : mat Zi) : Z := fst (mtrace ZK hrho).

Definition sym_expect_state n tc psi := expect_state (apply_gates n tc psi) psi.
Definition sym_expect_dm n tc rho := expect_dm (apply_gates n tc rho).
Definition sym_expect_state_prefix n tc psi := expect_state (apply_gates_prefix n tc psi) psi.   (* historical *)
Definition sym_expect_dm_prefix n tc rho := expect_dm (apply_gates_prefix n tc rho).
Definition dense_expect_state (H psi : mat Zi) := expect_state (mmul ZK H psi) psi.
Definition dense_expect_dm (H rho : mat Zi) := expect_dm (mmul ZK H rho).

(* ------------------------------------------------------------------ algebra *)
Definition mneg (A : mat Zi) : mat Zi := mscale ZK zim1 A.
Definition msub (A B : mat Zi) : mat Zi := madd ZK A (mneg B).
(* Hamiltonian.__add__ / __sub__ / __rsub__ / __mul__ / __matmul__ on matrices *)
Definition d_add (A B : mat Zi) := madd ZK A B.
Definition d_addc (n : nat) (A : mat Zi) (c : Zi) := madd ZK A (mscale ZK c (midentity ZK n)).
Definition d_sub (A B : mat Zi) := msub A B.
Definition d_subc (n : nat) (A : mat Zi) (c : Zi) := msub A (mscale ZK c (midentity ZK n)).
Definition d_rsubc (n : nat) (A : mat Zi) (c : Zi) := msub (mscale ZK c (midentity ZK n)) A.
Definition d_mul (A : mat Zi) (c : Zi) := mscale ZK c A.
Definition d_matmul (A B : mat Zi) := mmul ZK A B.
(* SymbolicHamiltonian._compose on forms (sympy arithmetic on the forms) *)
Definition s_add (f g : form) := FAdd f g.
Definition s_addc (f : form) (c : Zi) := FAdd f (FNum c).
Definition s_sub (f g : form) := FAdd f (FMul (FNum zim1) g).
Definition s_subc (f : form) (c : Zi) := FAdd f (FMul (FNum zim1) (FNum c)).
Definition s_rsubc (f : form) (c : Zi) := FAdd (FNum c) (FMul (FNum zim1) f).
Definition s_mul (f : form) (c : Zi) := FMul (FNum c) f.
Definition s_matmul (f g : form) := FMul f g.      (* h1 @ h2 = other * self -> form1 * form2 *)

(* Hamiltonian.__mul__: rescaling of the cached ascending eigenvalues by a real scalar *)
Definition eig_rescale (a : Z) (l : list Z) : list Z :=
  if (0 <=? a)%Z then map (Z.mul a) l else map (Z.mul a) (rev l).

(* ------------------------------------------------------------------ expectation from samples *)
Fixpoint index_of (x : nat) (l : list nat) : option nat :=
  match l with
  | [] => None
  | y :: l' => if x =? y then Some 0 else option_map S (index_of x l')
  end.
Definition freqs := list (list bool * Z).
Definition ftotal (fr : freqs) : Z := fold_right Z.add 0%Z (map snd fr).

Fixpoint opt_all {A} (l : list (option A)) : option (list A) :=
  match l with
  | [] => Some []
  | None :: _ => None
  | Some x :: l' => option_map (cons x) (opt_all l')
  end.

(* state[qubit_map.index(q)] *)
Definition key_bit (key : list bool) (qmap : list nat) (q : nat) : option bool :=
  match index_of q qmap with Some j => nth_error key j | None => None end.

Definition count_true (l : list bool) : nat := length (filter (fun b => b) l).
Definition sgn (odd : bool) : Z := if odd then (-1)%Z else 1%Z.

(* HISTORICAL (before the repair): the SET of target qubits of a term was used *)
Definition sym_samples_prefix (tc : list sterm * Zi) (fr : freqs) (qmap : list nat) : option (Z * Z) :=
  if negb (forallb (fun t => forallb (fun f => pauli_eqb (fst f) PZ) (t_factors t)) (fst tc)) then None
  else
    let per_term t :=
      option_map (fold_right Z.add 0%Z)
        (opt_all (map (fun kc : list bool * Z =>
             option_map (fun bits => (fst (t_coef t) * sgn (Nat.odd (count_true bits)) * snd kc)%Z)
                        (opt_all (map (key_bit (fst kc) qmap) (t_targets t)))) fr)) in
    option_map (fun l => ((fold_right Z.add 0%Z l + fst (snd tc) * ftotal fr)%Z, ftotal fr))
               (opt_all (map per_term (fst tc))).

(* SymbolicHamiltonian.expectation_from_samples: returns (numerator, total): value = numerator/total.
   qubits = [factor.target_qubit for factor in term.factors ...] (a list: every factor counts).
   None = the real code raises (non-Z factor, qubit missing from the map, key too short) *)
Definition sym_samples (tc : list sterm * Zi) (fr : freqs) (qmap : list nat) : option (Z * Z) :=
  if negb (forallb (fun t => forallb (fun f => pauli_eqb (fst f) PZ) (t_factors t)) (fst tc)) then None
  else
    let per_term t :=
      option_map (fold_right Z.add 0%Z)
        (opt_all (map (fun kc : list bool * Z =>
             option_map (fun bits => (fst (t_coef t) * sgn (Nat.odd (count_true bits)) * snd kc)%Z)
                        (opt_all (map (key_bit (fst kc) qmap) (map snd (t_factors t))))) fr)) in
    option_map (fun l => ((fold_right Z.add 0%Z l + fst (snd tc) * ftotal fr)%Z, ftotal fr))
               (opt_all (map per_term (fst tc))).

Definition is_diag (M : mat Zi) : bool :=
  forallb (fun i => forallb (fun j => (i =? j) || zi_is0 (mget ZK M i j)) (seq 0 (length M)))
          (seq 0 (length M)).

(* HISTORICAL (before the repair): size = len(qubit_map) *)
Definition dense_sample_index_prefix (key : list bool) (qmap : list nat) : option nat :=
  let size := length qmap in
  option_map (fold_right Nat.add 0)
    (opt_all (map (fun i => if size <=? i then None    (* 2 ** negative: float index -> IndexError *)
                            else option_map (fun b : bool => if b then 2 ^ (size - 1 - i) else 0)
                                            (key_bit key qmap i)) qmap)).
Definition dense_samples_prefix (M : mat Zi) (fr : freqs) (qmap : list nat) : option (Z * Z) :=
  if negb (is_diag M) then None
  else option_map (fun l => (fold_right Z.add 0%Z l, ftotal fr))
    (opt_all (map (fun kc : list bool * Z =>
        match dense_sample_index_prefix (fst kc) qmap with
        | Some ix => if ix <? length M then Some (fst (mget ZK M ix ix) * snd kc)%Z else None
        | None => None
        end) fr)).

(* Hamiltonian.expectation_from_samples on a dense matrix:  size = int(np.log2(len(obs)));
   index += int(k[qubit_map.index(i)]) * 2 ** (size - 1 - i)  for i in qubit_map *)
Definition dense_sample_index (n : nat) (key : list bool) (qmap : list nat) : option nat :=
  option_map (fold_right Nat.add 0)
    (opt_all (map (fun i => if n <=? i then None
                            else option_map (fun b : bool => if b then 2 ^ (n - 1 - i) else 0)
                                            (key_bit key qmap i)) qmap)).
Definition dense_samples_n (n : nat) (M : mat Zi) (fr : freqs) (qmap : list nat) : option (Z * Z) :=
  if negb (is_diag M) then None
  else option_map (fun l => (fold_right Z.add 0%Z l, ftotal fr))
    (opt_all (map (fun kc : list bool * Z =>
        match dense_sample_index n (fst kc) qmap with
        | Some ix => if ix <? length M then Some (fst (mget ZK M ix ix) * snd kc)%Z else None
        | None => None
        end) fr)).

Definition dense_samples (M : mat Zi) (fr : freqs) (qmap : list nat) : option (Z * Z) :=
  dense_samples_n (Nat.log2 (length M)) M fr qmap.

(* the basis state a key denotes under a qubit map: qubit q carries key[qmap.index(q)];
   qubits outside the map carry 0 *)
Definition key_state (n : nat) (key : list bool) (qmap : list nat) : list bool :=
  map (fun q => match key_bit key qmap q with Some b => b | None => false end) (seq 0 n).
(* SPEC: frequency-weighted eigenvalues of a diagonal observable *)
Definition samples_spec (n : nat) (M : mat Zi) (fr : freqs) (qmap : list nat) : Z :=
  fold_right Z.add 0%Z
    (map (fun kc : list bool * Z =>
            (fst (mget ZK M (idx (key_state n (fst kc) qmap)) (idx (key_state n (fst kc) qmap))) * snd kc)%Z) fr).

(* ------------------------------------------------------------------ model builders *)
(* _build_spin_model(nqubits, matrix, condition) *)
Definition build_spin (n : nat) (M : mat Zi) (cond : nat -> nat -> bool) : mat Zi :=
  msum ZK (map (fun i => multikron ZK (map (fun j => if cond i j then M else I2 ZK) (seq 0 n)))
               (seq 0 n)).
Definition cond_pair (n i j : nat) : bool := (i =? j mod n) || (i =? (j + 1) mod n).
Definition cond_one (n i j : nat) : bool := i =? j mod n.

(* models.TFIM(n, h, dense=True) *)
Definition tfim_dense (n : nat) (h : Z) : mat Zi :=
  let ham := mneg (build_spin n (pmat PZ) (cond_pair n)) in
  if (h =? 0)%Z then ham
  else msub ham (mscale ZK (h, 0%Z) (build_spin n (pmat PX) (cond_one n))).
(* _OneBodyPauli(n, P, dense=True) *)
Definition onebody_dense (n : nat) (p : pauli) : mat Zi := mneg (build_spin n (pmat p) (cond_one n)).
(* models.Heisenberg(n, J, h, dense=True) *)
Definition heis_dense (n : nat) (J hf : Z * Z * Z) : mat Zi :=
  let step (M : mat Zi) (pc : pauli * Z * Z) :=
    let '(p, j, h) := pc in
    madd ZK (msub M (mscale ZK (j, 0%Z) (build_spin n (pmat p) (cond_pair n))))
            (mscale ZK (h, 0%Z) (onebody_dense n p)) in
  let '(jx, jy, jz) := J in let '(hx, hy, hz) := hf in
  fold_left step [(PX, jx, hx); (PY, jy, hy); (PZ, jz, hz)]
            (mscale ZK zi0 (midentity ZK n)).

(* the formulas of the docstrings, as forms *)
Definition fsum (l : list form) : form :=
  match l with [] => FNum zi0 | h :: t => fold_left FAdd t h end.
Definition fneg (f : form) : form := FMul (FNum zim1) f.
Definition zc (z : Z) : Zi := (z, 0%Z).
Definition tfim_form (n : nat) (h : Z) : form :=
  fneg (fsum (map (fun k => FAdd (FMul (FSym PZ k) (FSym PZ ((k + 1) mod n)))
                                 (FMul (FNum (zc h)) (FSym PX k))) (seq 0 n))).
Definition onebody_form (n : nat) (p : pauli) : form :=
  fneg (fsum (map (fun k => FSym p k) (seq 0 n))).
Definition heis_form (n : nat) (J hf : Z * Z * Z) : form :=
  let '(jx, jy, jz) := J in let '(hx, hy, hz) := hf in
  let pair (k : nat) :=
    fsum (map (fun pj : pauli * Z => FMul (FNum (zc (snd pj)))
                 (FMul (FSym (fst pj) k) (FSym (fst pj) ((k + 1) mod n))))
              [(PX, jx); (PY, jy); (PZ, jz)]) in
  let field (k : nat) :=
    fsum (map (fun ph : pauli * Z => FMul (FNum (zc (snd ph))) (FSym (fst ph) k))
              [(PX, hx); (PY, hy); (PZ, hz)]) in
  FAdd (fneg (fsum (map pair (seq 0 n)))) (fneg (fsum (map field (seq 0 n)))).
(* 2 * MaxCut(n, adj):  - sum_{i,j} adj[i][j] * (1 - Z_i Z_j) *)
Definition maxcut2_form (n : nat) (adj : list (list Z)) : form :=
  fneg (fsum (flat_map (fun i => map (fun j =>
      FMul (FNum (zc (nth j (nth i adj []) 0%Z)))
           (FAdd (FNum zi1) (fneg (FMul (FSym PZ i) (FSym PZ j))))) (seq 0 n)) (seq 0 n))).

(* ------------------------------------------------------------------ helpers for generated files *)
Fixpoint veqb (u v : vec Zi) : bool :=
  match u, v with
  | [], [] => true
  | x :: u', y :: v' => zi_eqb x y && veqb u' v'
  | _, _ => false
  end.
Fixpoint meqb (A B : mat Zi) : bool :=
  match A, B with
  | [], [] => true
  | u :: A', v :: B' => veqb u v && meqb A' B'
  | _, _ => false
  end.
Definition omeqb (A : option (mat Zi)) (B : mat Zi) : bool :=
  match A with Some A' => meqb A' B | None => false end.
Definition zsym (p : pauli) (q : Z) : form := FSym p (Z.to_nat q).
Definition zpow (f : form) (k : Z) : form := FPow f (Z.to_nat k).
Definition zsf (p : pauli) (q k : Z) : sfac := SF p (Z.to_nat q) (Z.to_nat k).
Definition zfac (p : pauli) (q : Z) : pauli * nat := (p, Z.to_nat q).
Definition nats (l : list Z) : list nat := map Z.to_nat l.
Definition bits (l : list Z) : list bool := map (fun z => negb (z =? 0)%Z) l.
Definition sterm_eqb (a b : sterm) : bool :=
  zi_eqb (t_coef a) (t_coef b) &&
  ((fix go (u v : list (pauli * nat)) : bool :=
      match u, v with
      | [], [] => true
      | x :: u', y :: v' => pauli_eqb (fst x) (fst y) && (snd x =? snd y) && go u' v'
      | _, _ => false
      end) (t_factors a) (t_factors b)).
Fixpoint list_eqb {A} (eqb : A -> A -> bool) (u v : list A) : bool :=
  match u, v with
  | [], [] => true
  | x :: u', y :: v' => eqb x y && list_eqb eqb u' v'
  | _, _ => false
  end.
Definition opair_eqb (a : option (Z * Z)) (b : option (Z * Z)) : bool :=
  match a, b with
  | Some (x, y), Some (u, v) => (x =? u)%Z && (y =? v)%Z
  | None, None => true
  | _, _ => false
  end.
