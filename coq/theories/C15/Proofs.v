(* C15/Proofs.v : lemmas model-vs-specification for the symbolic / dense Hamiltonians *)
From Coq Require Import ZArith List Bool Arith Lia Sorted Permutation.
From QV Require Import Base.Mat Base.Zi C15.MatDefs C15.Model C15.MatAlg.
Import ListNotations.

Lemma ZL : ring_laws ZK.
Proof.
  constructor; cbn [add mul zero one Ziops].
  - apply zi_add_comm. - apply zi_add_assoc. - apply zi_add_0_l. - apply zi_mul_comm.
  - apply zi_mul_assoc. - apply zi_mul_1_l. - apply zi_mul_0_l. - apply zi_mul_add_l.
Qed.

(* ------------------------------------------------------------------ dense route *)
Lemma full_matrix_ok n q p : q < n -> full_matrix n q (pmat p) = embed ZK n [q] (pmat p).
Proof. intros H. unfold full_matrix. destruct p; apply (full_matrix_embed ZK ZL); assumption. Qed.

Theorem dense_sound n f : forall M, dense n f = Some M -> M = denote n f.
Proof.
  induction f as [p q|c|a IHa b IHb|a IHa b IHb|a IHa k]; intros M H; cbn [dense denote] in *.
  - destruct (Nat.ltb_spec q n) as [L|L]; [|discriminate].
    inversion H; subst. now apply full_matrix_ok.
  - now inversion H.
  - destruct (dense n a) as [A|]; [|discriminate]. destruct (dense n b) as [B|]; [|discriminate].
    inversion H; subst. now rewrite (IHa A eq_refl), (IHb B eq_refl).
  - destruct (dense n a) as [A|]; [|discriminate]. destruct (dense n b) as [B|]; [|discriminate].
    inversion H; subst. now rewrite (IHa A eq_refl), (IHb B eq_refl).
  - destruct (dense n a) as [A|]; [|discriminate]. inversion H; subst. now rewrite (IHa A eq_refl).
Qed.

Theorem dense_total n f : form_ok n f = true -> dense n f = Some (denote n f).
Proof.
  induction f as [p q|c|a IHa b IHb|a IHa b IHb|a IHa k]; intros H; cbn [dense denote form_ok] in *.
  - rewrite H. f_equal. apply full_matrix_ok. now apply Nat.ltb_lt.
  - reflexivity.
  - apply andb_true_iff in H as [H1 H2]. now rewrite IHa, IHb.
  - apply andb_true_iff in H as [H1 H2]. now rewrite IHa, IHb.
  - now rewrite IHa.
Qed.

Theorem dense_rejects n f : form_ok n f = false -> dense n f = None.
Proof.
  induction f as [p q|c|a IHa b IHb|a IHa b IHb|a IHa k]; intros H; cbn [dense form_ok] in *.
  - now rewrite H.
  - discriminate.
  - apply andb_false_iff in H as [H|H]; [now rewrite IHa|rewrite (IHb H); now destruct (dense n a)].
  - apply andb_false_iff in H as [H|H]; [now rewrite IHa|rewrite (IHb H); now destruct (dense n a)].
  - now rewrite IHa.
Qed.

(* ------------------------------------------------------------------ shapes of denotations *)
Lemma pmat_wf p : wfm 2 2 (pmat p).
Proof. destruct p; split; try reflexivity; repeat constructor. Qed.

Lemma embed_wf n qs M : wfm (2 ^ n) (2 ^ n) (embed ZK n qs M).
Proof.
  unfold embed. split; [now rewrite map_length, allbits_length|].
  apply Forall_forall. intros r H. apply in_map_iff in H as (b & <- & _).
  now rewrite map_length, allbits_length.
Qed.

Lemma pow2_ne0 n : 2 ^ n <> 0.
Proof. pose proof (pow2_pos n). lia. Qed.

Lemma denote_wf n f : wfm (2 ^ n) (2 ^ n) (denote n f).
Proof.
  induction f; cbn [denote].
  - apply embed_wf.
  - apply mscale_wf, (midentity_wf ZK).
  - now apply madd_wf.
  - apply (mmul_wf ZK _ (2 ^ n)); try assumption. apply pow2_ne0.
  - now apply mpow_wf.
Qed.

(* ------------------------------------------------------------------ algebra *)
Theorem algebra_dense n (A B : mat Zi) (c : Zi) :
  d_add A B = madd ZK A B /\ d_sub A B = madd ZK A (mscale ZK zim1 B) /\
  d_addc n A c = madd ZK A (mscale ZK c (midentity ZK n)) /\
  d_subc n A c = madd ZK A (mscale ZK zim1 (mscale ZK c (midentity ZK n))) /\
  d_rsubc n A c = madd ZK (mscale ZK c (midentity ZK n)) (mscale ZK zim1 A) /\
  d_mul A c = mscale ZK c A /\ d_matmul A B = mmul ZK A B.
Proof. repeat split. Qed.

Theorem algebra_symbolic n f g c :
  denote n (s_add f g) = d_add (denote n f) (denote n g) /\
  denote n (s_sub f g) = d_sub (denote n f) (denote n g) /\
  denote n (s_addc f c) = d_addc n (denote n f) c /\
  denote n (s_subc f c) = d_subc n (denote n f) c /\
  denote n (s_rsubc f c) = d_rsubc n (denote n f) c /\
  denote n (s_mul f c) = d_mul (denote n f) c /\
  denote n (s_matmul f g) = d_matmul (denote n f) (denote n g).
Proof.
  assert (I : forall X, wfm (2 ^ n) (2 ^ n) X -> mmul ZK (mscale ZK zim1 (midentity ZK n)) X = mscale ZK zim1 X).
  { intros X HX. now rewrite (mscale_mmul_l ZK ZL), (mmul_id_l ZK ZL n (2 ^ n)). }
  repeat split; cbn [denote s_add s_sub s_addc s_subc s_rsubc s_mul s_matmul];
    unfold d_add, d_sub, d_addc, d_subc, d_rsubc, d_mul, d_matmul, msub, mneg.
  - now rewrite I by apply denote_wf.
  - rewrite I; [reflexivity|]. apply mscale_wf, (midentity_wf ZK).
  - now rewrite I by apply denote_wf.
  - now rewrite (mscale_mmul_l ZK ZL), (mmul_id_l ZK ZL n (2 ^ n)) by apply denote_wf.
Qed.

(* ------------------------------------------------------------------ eigenvalue cache *)
Definition ascending (l : list Z) : Prop := Sorted Z.le l.

Lemma sorted_map_mul_nonneg a l : (0 <= a)%Z -> ascending l -> ascending (map (Z.mul a) l).
Proof.
  intros Ha H. induction H as [|x l Hs IH Hd]; simpl; constructor; [assumption|].
  destruct Hd; simpl; constructor. nia.
Qed.

Lemma sorted_rev_neg a l : (a < 0)%Z -> ascending l -> ascending (map (Z.mul a) (rev l)).
Proof.
  intros Ha H. apply Sorted_StronglySorted in H; [|intros x y z; apply Z.le_trans].
  induction H as [|x l Hs IH Hall]; simpl; [constructor|].
  rewrite map_app. simpl.
  assert (G : forall u, ascending u -> (forall y, In y u -> (y <= a * x)%Z) -> ascending (u ++ [(a * x)%Z])).
  { clear. intros u Hu. induction Hu as [|y u Hs IH Hd]; intros Hb; simpl.
    - repeat constructor.
    - constructor; [apply IH; intros; apply Hb; now right|].
      destruct u as [|z u]; simpl; constructor; [apply Hb; now left|]. now inversion Hd. }
  apply G; [exact IH|]. intros y Hy. apply in_map_iff in Hy as (z & <- & Hz).
  apply in_rev in Hz. rewrite Forall_forall in Hall. specialize (Hall z Hz). nia.
Qed.

Theorem eig_rescale_sorted a l : ascending l -> ascending (eig_rescale a l).
Proof.
  intros H. unfold eig_rescale. destruct (Z.leb_spec 0 a).
  - now apply sorted_map_mul_nonneg.
  - now apply sorted_rev_neg.
Qed.

Theorem eig_rescale_perm a l : Permutation (eig_rescale a l) (map (Z.mul a) l).
Proof.
  unfold eig_rescale. destruct (0 <=? a)%Z; [reflexivity|].
  apply Permutation_map. symmetry. apply Permutation_rev.
Qed.

