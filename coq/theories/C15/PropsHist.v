(* C15/PropsHist.v : the model statement behind the history stream of harness/c15_hist.py:
   a chain of scalar multiplications applied to a cached ascending spectrum (Hamiltonian.__mul__ carries the cache from
   object to object) gives the same list as ONE rescaling of the original cache by the product -- history == fresh. *)
From Coq Require Import ZArith List Bool Lia.
From QV Require Import C15.Model C15.ProofsHist.
Import ListNotations.
Local Open Scope Z_scope.

Theorem eig_rescale_compose : forall a b l, eig_rescale a (eig_rescale b l) = eig_rescale (a * b) l.
Proof. exact eig_rescale_compose_proof. Qed.
Print Assumptions eig_rescale_compose.

Example eig_rescale_compose_nonvacuous :
  eig_rescale (-2) (eig_rescale (-3) [(-3); 0; 5]) = [(-18); 0; 30] /\ eig_rescale 0 (eig_rescale (-1) [1; 2]) = [0; 0].
Proof. split; reflexivity. Qed.
