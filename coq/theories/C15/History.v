(* C15/History.v : HISTORICAL lemmas about the implementation as it was BEFORE the repairs of
   SymbolicTerm.__call__ (factor order), SymbolicHamiltonian.expectation_from_samples (set of qubits)
   and Hamiltonian.expectation_from_samples (size = len(qubit_map)).  The *_prefix functions of
   Model.v model that old code; nothing here is a statement about the current tree.  The harness
   uses the *_prefix models only to classify a regression (a reverted repair) precisely. *)
From Coq Require Import ZArith List Bool Arith.
From QV Require Import Base.Mat Base.Zi C15.MatDefs C15.Model C15.MatAlg C15.Proofs.
Import ListNotations.

Definition w_xy : form := FMul (FSym PX 0) (FSym PY 0).
Definition w_xy_ms : list smono := [(zi1, [SF PX 0 1; SF PY 0 1])].
Definition w_ixy : form := FMul (FNum zii) (FMul (FSym PX 0) (FSym PY 0)).
Definition w_ixy_ms : list smono := [(zi1, [SN zii; SF PX 0 1; SF PY 0 1])].
Definition w_psi0 : mat Zi := [[zi1]; [zi0]].
Definition w_zzz : form := FMul (FMul (FSym PZ 0) (FSym PZ 1)) (FSym PZ 0).
Definition w_zzz_ms : list smono := [(zi1, [SF PZ 0 1; SF PZ 1 1; SF PZ 0 1])].
Definition w_freq : freqs := [([false; false], 2%Z); ([true; false], 6%Z)].

Lemma prefix_apply_witness :
  form_ok 1 w_xy = true /\ smonos_op 1 w_xy_ms = denote 1 w_xy /\ wfm 2 1 w_psi0 /\
  apply_gates_prefix 1 (terms_of w_xy_ms) w_psi0 <> apply_spec 1 w_xy w_psi0 /\
  apply_gates 1 (terms_of w_xy_ms) w_psi0 = apply_spec 1 w_xy w_psi0.
Proof.
  split; [reflexivity|]. split; [vm_compute; reflexivity|]. split; [split; [reflexivity|repeat constructor]|].
  split; [vm_compute; intro H; discriminate H|vm_compute; reflexivity].
Qed.

Lemma prefix_expectation_witness :
  form_ok 1 w_ixy = true /\ smonos_op 1 w_ixy_ms = denote 1 w_ixy /\
  (* the operator is Hermitian: -Z *)
  denote 1 w_ixy = [[zim1; zi0]; [zi0; zi1]] /\
  sym_expect_state_prefix 1 (terms_of w_ixy_ms) w_psi0 = 1%Z /\
  dense_expect_state (denote 1 w_ixy) w_psi0 = (-1)%Z.
Proof. repeat split; vm_compute; reflexivity. Qed.

Lemma prefix_samples_witness :
  smonos_op 2 w_zzz_ms = denote 2 w_zzz /\
  sym_samples_prefix (terms_of w_zzz_ms) w_freq [0; 1] = Some ((-4)%Z, 8%Z) /\
  samples_spec 2 (denote 2 w_zzz) w_freq [0; 1] = 8%Z.
Proof. repeat split; vm_compute; reflexivity. Qed.

Lemma prefix_dense_samples_witness :
  let M := denote 3 (FSym PZ 0) in
  let fr : freqs := [([false], 2%Z); ([true], 6%Z)] in
  is_diag M = true /\ dense_samples_prefix M fr [0] = Some (8%Z, 8%Z) /\ samples_spec 3 M fr [0] = (-4)%Z.
Proof. repeat split; vm_compute; reflexivity. Qed.

(* the same inputs through the live (repaired) model *)
Lemma live_on_old_witnesses :
  apply_gates 1 (terms_of w_xy_ms) w_psi0 = apply_spec 1 w_xy w_psi0 /\
  sym_expect_state 1 (terms_of w_ixy_ms) w_psi0 = dense_expect_state (denote 1 w_ixy) w_psi0 /\
  sym_samples (terms_of w_zzz_ms) w_freq [0; 1] = Some (samples_spec 2 (denote 2 w_zzz) w_freq [0; 1], 8%Z) /\
  dense_samples (denote 3 (FSym PZ 0)) [([false], 2%Z); ([true], 6%Z)] [0]
    = Some (samples_spec 3 (denote 3 (FSym PZ 0)) [([false], 2%Z); ([true], 6%Z)] [0], 8%Z).
Proof. repeat split; vm_compute; reflexivity. Qed.
