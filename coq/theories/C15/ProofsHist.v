(* C15/ProofsHist.v : proofs for PropsHist.v *)
From Coq Require Import ZArith List Bool Lia.
From QV Require Import C15.Model.
Import ListNotations.
Local Open Scope Z_scope.

Lemma map_zero_const : forall (f g : Z -> Z) l l', (forall x, f x = 0) -> (forall x, g x = 0) -> length l = length l' -> map f l = map g l'.
Proof.
  intros f g l. induction l as [|x l IH]; intros [|y l'] Hf Hg Hl; try discriminate; [reflexivity|].
  cbn. rewrite Hf, Hg. f_equal. apply IH; auto.
Qed.

Lemma eig_rescale_compose_proof : forall a b l, eig_rescale a (eig_rescale b l) = eig_rescale (a * b) l.
Proof.
  intros a b l. unfold eig_rescale.
  destruct (0 <=? b) eqn:Hb, (0 <=? a) eqn:Ha; apply Z.leb_le in Hb || apply Z.leb_gt in Hb; apply Z.leb_le in Ha || apply Z.leb_gt in Ha.
  - assert (H : 0 <=? a * b = true) by (apply Z.leb_le; nia). rewrite H, map_map. apply map_ext. intros; ring.
  - destruct (Z.eq_dec b 0) as [->|Hnz].
    + rewrite Z.mul_0_r. cbn [Z.leb Z.compare]. rewrite <- map_rev, map_map.
      apply map_zero_const; [intros; ring | intros; ring | apply rev_length].
    + assert (H : 0 <=? a * b = false) by (apply Z.leb_gt; nia). rewrite H, <- map_rev, map_map. apply map_ext. intros; ring.
  - destruct (Z.eq_dec a 0) as [->|Hnz].
    + rewrite Z.mul_0_l. cbn [Z.leb Z.compare]. rewrite map_map.
      apply map_zero_const; [intros; ring | intros; ring | apply rev_length].
    + assert (H : 0 <=? a * b = false) by (apply Z.leb_gt; nia). rewrite H, map_map. apply map_ext. intros; ring.
  - assert (H : 0 <=? a * b = true) by (apply Z.leb_le; nia). rewrite H, <- map_rev, rev_involutive, map_map. apply map_ext. intros; ring.
Qed.
