(* C15/Props.v : the property theorems.  Model: C15/Model.v; specification: Model.denote
   (structural recursion with matrix sum/product/power over Base/Mat.embed).  *)
From Coq Require Import ZArith List Bool Arith Sorted Permutation.
From QV Require Import Base.Mat Base.Zi C15.MatDefs C15.Model C15.MatAlg C15.Proofs C15.Proofs2 C15.Proofs3 C15.Proofs4 C15.Proofs5 C15.Proofs6 C15.Proofs7 C15.Proofs8.
Import ListNotations.

(* ---- dense route: _get_symbol_matrix / calculate_dense compute the mathematical operator ---- *)
Theorem dense_ok : forall n f M, dense n f = Some M -> M = denote n f.
Proof. exact dense_sound. Qed.
Print Assumptions dense_ok.

Theorem dense_ok_total : forall n f, form_ok n f = true -> dense n f = Some (denote n f).
Proof. exact dense_total. Qed.
Print Assumptions dense_ok_total.

(* symbols on qubits >= nqubits are refused (the real code raises) *)
Theorem dense_rejects_ok : forall n f, form_ok n f = false -> dense n f = None.
Proof. exact dense_rejects. Qed.
Print Assumptions dense_rejects_ok.

Example dense_ok_nonvacuous :
  form_ok 2 (FAdd (FMul (FSym PX 0) (FPow (FSym PY 1) 3)) (FNum (2, 1)%Z)) = true.
Proof. reflexivity. Qed.

Example dense_ok_pow_of_anticommuting_product :   (* (X0*Z0)**2 = -1, (1j*X0*Y0)**3 = -Z0, ((X0+Z0)*Y0)**2 = -2 *)
  dense 1 (FPow (FMul (FSym PX 0) (FSym PZ 0)) 2) = Some [[zim1; zi0]; [zi0; zim1]] /\
  dense 1 (FPow (FMul (FNum zii) (FMul (FSym PX 0) (FSym PY 0))) 3) = Some [[zim1; zi0]; [zi0; zi1]] /\
  dense 1 (FPow (FMul (FAdd (FSym PX 0) (FSym PZ 0)) (FSym PY 0)) 2) = Some [[(-2, 0)%Z; zi0]; [zi0; (-2, 0)%Z]].
Proof. repeat split; vm_compute; reflexivity. Qed.

(* ---- terms route: for ANY monomial list that denotes the form (sympy's expand is an oracle held
   to this contract, checked per case by the harness), the terms built by SymbolicTerm.__init__
   (power rule, per-qubit factor lists, constant) satisfy
        sum_t embed(targets_t, matrix_t) + constant * I = [[form]]                           ---- *)
Theorem terms_ok : forall n f ms, Forall (smono_ok n) ms -> smonos_op n ms = denote n f ->
  terms_matrix n (terms_of ms) = denote n f.
Proof. exact terms_full. Qed.
Print Assumptions terms_ok.

(* the model's own expansion satisfies the contract, so the whole pipeline is closed *)
Theorem own_expansion_contract : forall n f, smonos_op n (map compress_mono (expand f)) = denote n f.
Proof. exact own_expansion_ok. Qed.
Print Assumptions own_expansion_contract.

Theorem terms_ok_own_expansion : forall n f, form_ok n f = true ->
  terms_matrix n (model_terms f) = denote n f.
Proof. exact model_terms_full. Qed.
Print Assumptions terms_ok_own_expansion.

Example terms_ok_nonvacuous :
  let ms := [((2, 0)%Z, [SF PX 0 1; SF PY 0 3; SF PZ 1 2]); ((0, 1)%Z, [])] in
  Forall (smono_ok 2) ms /\
  smonos_op 2 ms = denote 2 (FAdd (FMul (FNum (2, 0)%Z) (FMul (FSym PX 0) (FMul (FPow (FSym PY 0) 3) (FPow (FSym PZ 1) 2)))) (FNum (0, 1)%Z)).
Proof. split; [repeat constructor|vm_compute; reflexivity]. Qed.

(* ---- application to states: h @ psi, h @ rho (SymbolicTerm.__call__ applies the factors
        last-to-first; apply_gates adds the constant) ---- *)
Theorem apply_ok : forall n c f ms S,
  Forall (smono_ok n) ms -> smonos_op n ms = denote n f ->
  (fst (terms_of ms) <> [] \/ snd (terms_of ms) <> zi0) -> wfm (2 ^ n) c S ->
  apply_gates n (terms_of ms) S = apply_spec n f S.
Proof. exact apply_full. Qed.
Print Assumptions apply_ok.

Example apply_ok_nonvacuous :   (* several factors on one qubit: X0*Y0 *)
  let ms := [(zi1, [SF PX 0 1; SF PY 0 1])] in
  Forall (smono_ok 1) ms /\ smonos_op 1 ms = denote 1 (FMul (FSym PX 0) (FSym PY 0)) /\ fst (terms_of ms) <> [] /\
  apply_gates 1 (terms_of ms) [[zi1]; [zi0]] = [[zii]; [zi0]].
Proof.
  split; [repeat constructor|]. split; [vm_compute; reflexivity|]. split; [discriminate|vm_compute; reflexivity].
Qed.

(* ---- expectation values on state vectors and density matrices ---- *)
Theorem expectation_ok : forall n f ms psi rho,
  Forall (smono_ok n) ms -> smonos_op n ms = denote n f ->
  (fst (terms_of ms) <> [] \/ snd (terms_of ms) <> zi0) ->
  wfm (2 ^ n) 1 psi -> wfm (2 ^ n) (2 ^ n) rho ->
  sym_expect_state n (terms_of ms) psi = dense_expect_state (denote n f) psi /\
  sym_expect_dm n (terms_of ms) rho = dense_expect_dm (denote n f) rho.
Proof. exact expectation_full. Qed.
Print Assumptions expectation_ok.

(* ---- algebra ---- *)
Theorem algebra_ok : forall n f g c,
  denote n (s_add f g) = d_add (denote n f) (denote n g) /\
  denote n (s_sub f g) = d_sub (denote n f) (denote n g) /\
  denote n (s_addc f c) = d_addc n (denote n f) c /\
  denote n (s_subc f c) = d_subc n (denote n f) c /\
  denote n (s_rsubc f c) = d_rsubc n (denote n f) c /\
  denote n (s_mul f c) = d_mul (denote n f) c /\
  denote n (s_matmul f g) = d_matmul (denote n f) (denote n g).
Proof. exact algebra_symbolic. Qed.
Print Assumptions algebra_ok.

(* ---- eigenvalue cache of a * H ---- *)
Theorem eig_rescale_ok : forall a l, ascending l ->
  ascending (eig_rescale a l) /\ Permutation (eig_rescale a l) (map (Z.mul a) l).
Proof. intros a l H. split; [now apply eig_rescale_sorted|apply eig_rescale_perm]. Qed.
Print Assumptions eig_rescale_ok.

Example eig_rescale_nonvacuous : ascending [(-3)%Z; 0%Z; 0%Z; 5%Z] /\ eig_rescale (-2) [(-3)%Z; 0%Z; 0%Z; 5%Z] = [(-10)%Z; 0%Z; 0%Z; 6%Z].
Proof. split; [repeat constructor; discriminate|reflexivity]. Qed.

(* ---- expectation from samples ----
   symbolic route: every term a product of Z symbols (anything else is refused), every factor's qubit
   in the map, keys with one bit per mapped qubit; several Z on one qubit are counted with multiplicity *)
Theorem samples_expectation_ok : forall n f ms fr qmap,
  Forall (smono_ok n) ms -> smonos_op n ms = denote n f ->
  ts_ok n qmap (fst (terms_of ms)) ->
  Forall (fun kc : list bool * Z => length (fst kc) = length qmap) fr ->
  sym_samples (terms_of ms) fr qmap = Some (samples_spec n (denote n f) fr qmap, ftotal fr).
Proof. exact samples_symbolic. Qed.
Print Assumptions samples_expectation_ok.

Example samples_expectation_nonvacuous :   (* Z0*Z1*Z0 = Z1 *)
  let ms := [(zi1, [SF PZ 0 1; SF PZ 1 1; SF PZ 0 1])] in
  Forall (smono_ok 2) ms /\ ts_ok 2 [0; 1] (fst (terms_of ms)) /\
  sym_samples (terms_of ms) [([false; false], 2%Z); ([true; false], 6%Z)] [0; 1] = Some (8%Z, 8%Z).
Proof.
  split; [repeat constructor|]. split; [|vm_compute; reflexivity].
  intros t [<-|[]]. split; [reflexivity|]. cbn. intros q [<-|[<-|[<-|[]]]]; cbn; auto.
Qed.

(* dense route (size = log2 len(obs)): any duplicate-free qubit map inside the register, full or
   partial; unmapped qubits are read as 0 *)
Theorem samples_dense_ok : forall n M fr qmap,
  is_diag M = true -> length M = 2 ^ n -> NoDup qmap -> (forall q, In q qmap -> q < n) ->
  Forall (fun kc : list bool * Z => length (fst kc) = length qmap) fr ->
  dense_samples M fr qmap = Some (samples_spec n M fr qmap, ftotal fr).
Proof. exact samples_dense_live. Qed.
Print Assumptions samples_dense_ok.

Example samples_dense_nonvacuous :   (* Z0 on three qubits, partial map [0] *)
  let M := denote 3 (FSym PZ 0) in
  is_diag M = true /\ length M = 8 /\ dense_samples M [([false], 2%Z); ([true], 6%Z)] [0] = Some ((-4)%Z, 8%Z).
Proof. repeat split; vm_compute; reflexivity. Qed.

(* ---- model builders (hamiltonians/models.py): dense builder = documented formula, for every n ---- *)
Theorem models_ok_tfim : forall n h, 1 < n -> tfim_dense n h = denote n (tfim_form n h).
Proof. exact tfim_ok. Qed.
Print Assumptions models_ok_tfim.

Theorem models_ok_onebody : forall n p, 0 < n -> onebody_dense n p = denote n (onebody_form n p).
Proof. exact onebody_ok. Qed.
Print Assumptions models_ok_onebody.

(* Heisenberg(n, J, h); XXZ(n, delta) = Heisenberg(n, (-1,-1,-delta), 0) and XXX(n, J, h) =
   Heisenberg(n, (J,J,J), h) are instances *)
Theorem models_ok_heisenberg : forall n J hf, 1 < n -> heis_dense n J hf = denote n (heis_form n J hf).
Proof. exact heis_ok. Qed.
Print Assumptions models_ok_heisenberg.

(* MaxCut is built symbolically; its form denotes  - sum_{i,j} adj[i][j] (I - Z_i Z_j)  ( = 2 H ) *)
Theorem models_ok_maxcut : forall n adj, 0 < n -> denote n (maxcut2_form n adj) = maxcut2_spec n adj.
Proof. exact maxcut_ok. Qed.
Print Assumptions models_ok_maxcut.

Example models_nonvacuous : tfim_dense 3 2 = denote 3 (tfim_form 3 2) /\ length (tfim_dense 3 2) = 8.
Proof. split; vm_compute; reflexivity. Qed.

