(* C15/Proofs4.v : the matrix of a term placed on its (sorted) target qubits is the product of
   its embedded factors; terms route in full *)
From Coq Require Import ZArith List Bool Arith Lia Sorted.
From QV Require Import Base.Mat Base.Zi C15.MatDefs C15.Model C15.MatAlg C15.Proofs C15.Proofs2 C15.Proofs3.
Import ListNotations.

Lemma ins_nodup_In x l y : In y (ins_nodup x l) <-> y = x \/ In y l.
Proof.
  induction l as [|z l IH]; cbn [ins_nodup]; [cbn; intuition congruence|].
  destruct (Nat.ltb_spec x z); [cbn; intuition congruence|].
  destruct (Nat.eqb_spec x z); [subst; cbn; intuition congruence|].
  cbn [In]. rewrite IH. intuition congruence.
Qed.
Lemma ins_nodup_sorted x l : StronglySorted lt l -> StronglySorted lt (ins_nodup x l).
Proof.
  induction 1 as [|z l Hs IH Hz]; cbn [ins_nodup]; [repeat constructor|].
  destruct (Nat.ltb_spec x z).
  - constructor; [now constructor|]. constructor; [assumption|].
    eapply Forall_impl; [|exact Hz]. cbn. intros; lia.
  - destruct (Nat.eqb_spec x z); [now constructor|].
    constructor; [exact IH|]. apply Forall_forall. intros y Hy. apply ins_nodup_In in Hy as [->|Hy]; [lia|].
    rewrite Forall_forall in Hz. now apply Hz.
Qed.
Lemma sort_nodup_sorted l : StronglySorted lt (sort_nodup l).
Proof. induction l; cbn [sort_nodup fold_right]; [constructor|now apply ins_nodup_sorted]. Qed.
Lemma sort_nodup_In l y : In y (sort_nodup l) <-> In y l.
Proof.
  induction l as [|x l IH]; cbn [sort_nodup fold_right]; [tauto|].
  fold (sort_nodup l). rewrite ins_nodup_In, IH. cbn. intuition congruence.
Qed.
Lemma memb_In x l : memb x l = true <-> In x l.
Proof.
  induction l as [|y l IH]; cbn [memb In]; [split; [discriminate|tauto]|].
  rewrite orb_true_iff, IH, Nat.eqb_eq. split; intros [H|H]; auto.
Qed.

Lemma fold_mmul_P2 t : forall A, wfm 2 2 A -> fold_left (mmul ZK) (map pmat t) A = mmul ZK A (P2 t).
Proof.
  induction t as [|p t IH]; intros A HA; cbn [map fold_left P2 fold_right].
  - symmetry. now apply mmul_I2.
  - fold (P2 t). rewrite IH by (apply (mmul_wf ZK 2 2 2); [exact HA|apply pmat_wf|lia]).
    apply (mmul_assoc ZK ZL).
Qed.
Lemma multimul_P2 ps : ps <> [] -> multimul ZK (map pmat ps) = P2 ps.
Proof.
  destruct ps as [|p t]; [congruence|]. intros _. unfold multimul, reduce1. cbn [map].
  now rewrite fold_mmul_P2 by apply pmat_wf.
Qed.

Lemma pq_nonnil fs q : In q (map snd fs) -> pq fs q <> [].
Proof.
  induction fs as [|[p q'] fs IH]; cbn [map snd In]; [tauto|]. intros [<-|H]; rewrite pq_cons.
  - rewrite Nat.eqb_refl. discriminate.
  - destruct (q' =? q); [discriminate|now apply IH].
Qed.

Theorem term_full_op n t : qs_ok n (t_factors t) -> t_factors t <> [] -> term_full n t = term_op n t.
Proof.
  intros Hq Hne. unfold term_full, term_matrix, term_op, mono_op. cbn [fst snd].
  rewrite (embed_mscale ZK ZL). f_equal.
  set (fs := t_factors t) in *. set (tg := t_targets t).
  assert (Hin : forall q, In q tg <-> In q (map snd fs)) by (intros q; apply sort_nodup_In).
  assert (E : map (fun q => multimul ZK (map pmat (facs_on q t))) tg = map (fun j => P2 (pq fs j)) tg).
  { apply map_ext_in. intros q Hq'. apply multimul_P2. apply pq_nonnil. now apply Hin. }
  rewrite E, (multikron_kronr ZK ZL).
  - rewrite (embed_spread ZK ZL n tg (fun j => P2 (pq fs j))).
    + rewrite prod_mk by exact Hq. apply mk_ext. intros j _.
      destruct (memb j tg) eqn:M; [reflexivity|].
      rewrite pq_nil; [reflexivity|]. intro H. apply Hin, memb_In in H. congruence.
    + apply sort_nodup_sorted.
    + apply Forall_forall. intros q Hq'. apply Hin, in_map_iff in Hq' as (f & <- & Hf). now apply Hq.
    + intros j. apply P2_wf.
  - destruct fs as [|f fs']; [congruence|]. intro H. apply map_eq_nil in H.
    assert (Hf : In (snd f) tg) by (apply Hin; now left). rewrite H in Hf. exact Hf.
Qed.

(* terms route, in full: the embedded term matrices plus the constant give [[form]] *)
Theorem terms_full n f ms : Forall (smono_ok n) ms -> smonos_op n ms = denote n f ->
  terms_matrix n (terms_of ms) = denote n f.
Proof.
  intros H E. rewrite <- (terms_prod_ok n f ms H E). unfold terms_matrix, terms_prod_matrix. f_equal. f_equal.
  apply map_ext_in. intros t Ht. apply term_full_op; [now apply (terms_of_qs n ms)|].
  unfold terms_of in Ht. cbn [fst] in Ht. apply filter_In in Ht as [_ Ht].
  rewrite targets_nil in Ht. destruct (t_factors t); [discriminate|discriminate].
Qed.

Theorem model_terms_full n f : form_ok n f = true -> terms_matrix n (model_terms f) = denote n f.
Proof.
  intros H. unfold model_terms. apply terms_full; [|apply own_expansion_ok].
  apply Forall_forall. intros m Hm. apply in_map_iff in Hm as (m0 & <- & Hm0).
  pose proof (expand_qs n f H) as Hq. eapply Forall_forall in Hq; [|exact Hm0].
  unfold smono_ok, compress_mono. cbn [snd]. now apply compress_ok.
Qed.
